#include <signal.h>
#include <sys/prctl.h>
#include <sys/time.h>
#include <unistd.h>

#include "VM/include/verif_hook.hpp"
#include "sim.hpp"

namespace sim {

volatile int *g_phase_slot = nullptr;
volatile long long g_progress = 0;

static volatile long long g_guard_last = -1;
static volatile int g_guard_idle = 0, g_guard_stall_ticks = 0, g_guard_hard_ticks = 0, g_guard_run_ticks = 0;
static void guard_tick(int) {
  g_guard_run_ticks = g_guard_run_ticks + 1;
  if (g_progress == g_guard_last) g_guard_idle = g_guard_idle + 1; else { g_guard_last = g_progress; g_guard_idle = 0; }
  if (g_guard_stall_ticks > 0 && g_guard_idle >= g_guard_stall_ticks) _exit(99);
  if (g_guard_hard_ticks > 0 && g_guard_run_ticks >= g_guard_hard_ticks) _exit(98);
}
void arm_guard(int stall_s, int hard_s) {
  const int tick = 2;
  g_guard_stall_ticks = stall_s / tick; g_guard_hard_ticks = hard_s / tick; g_guard_idle = 0; g_guard_run_ticks = 0; g_guard_last = -1;
  struct sigaction sa; memset(&sa, 0, sizeof sa); sa.sa_handler = guard_tick; sa.sa_flags = SA_RESTART;
  sigaction(SIGALRM, &sa, nullptr);
  struct itimerval it; it.it_interval.tv_sec = tick; it.it_interval.tv_usec = 0; it.it_value = it.it_interval;
  setitimer(ITIMER_REAL, &it, nullptr);
}
void run_started() { g_guard_run_ticks = 0; g_guard_idle = 0; bump_progress(); }

// ------------------------------------------------------------------------------------------- plan <-> json
static Json ops_to_json(const std::vector<Op> &ops) {
  Json a = Json::arr();
  for (auto &o : ops) {
    Json j = Json::obj();
    j.set("k", o.k);
    if (o.a) j.set("a", o.a);
    if (o.b) j.set("b", o.b);
    if (o.c) j.set("c", o.c);
    if (!o.s.empty()) j.set("s", o.s);
    a.push(j);
  }
  return a;
}
static std::vector<Op> ops_from_json(const Json &a) {
  std::vector<Op> ops;
  for (auto &j : a.a) { Op o; o.k = j.str("k"); o.a = j.num("a"); o.b = j.num("b"); o.c = j.num("c"); o.s = j.str("s"); ops.push_back(o); }
  return ops;
}

Json plan_to_json(const Plan &p) {
  Json j = Json::obj();
  j.set("prop", p.prop).set("world", p.world).set("seed", (long long)p.seed).set("run", p.run).set("sub", p.sub).set("note", p.note);
  Json k = Json::obj();
  for (auto &kv : p.knobs) k.set(kv.first, kv.second);
  j.set("knobs", k);
  j.set("ops", ops_to_json(p.ops));
  if (!p.proj.files.empty() || p.proj.has_ast) j.set("project", project_to_json(p.proj));
  if (!p.tasks.empty()) {
    Json ts = Json::arr();
    for (auto &t : p.tasks) { Json tj = Json::obj(); tj.set("project", project_to_json(t.proj)).set("ops", ops_to_json(t.ops)); ts.push(tj); }
    j.set("tasks", ts);
    Json s = Json::arr();
    for (int x : p.schedule) s.push(x);
    j.set("schedule", s);
  }
  if (!p.history.empty()) {
    Json hs = Json::arr();
    for (auto &h : p.history) hs.push(plan_to_json(h));
    j.set("history", hs);
  }
  return j;
}

Plan plan_from_json(const Json &j) {
  Plan p;
  p.prop = j.str("prop"); p.world = j.str("world"); p.seed = (uint64_t)j.num("seed"); p.run = j.num("run"); p.sub = j.num("sub"); p.note = j.str("note");
  if (auto k = j.find("knobs")) for (auto &kv : k->o) p.knobs[kv.first] = kv.second.n;
  if (auto o = j.find("ops")) p.ops = ops_from_json(*o);
  if (auto pr = j.find("project")) p.proj = project_from_json(*pr);
  if (auto ts = j.find("tasks")) for (auto &tj : ts->a) { Task t; t.proj = project_from_json(tj.at("project")); t.ops = ops_from_json(tj.at("ops")); p.tasks.push_back(t); }
  if (auto s = j.find("schedule")) for (auto &x : s->a) p.schedule.push_back((int)x.n);
  if (auto hs = j.find("history")) for (auto &hj : hs->a) p.history.push_back(plan_from_json(hj));
  return p;
}

std::string plan_brief(const Plan &p) {
  std::string s = p.world + " " + p.note + " ops=[";
  size_t n = 0;
  for (auto &o : p.ops) {
    if (n++) s += " ";
    if (n > 24) { s += "..."; break; }
    s += o.k;
    if (o.a || o.b) s += "(" + std::to_string(o.a) + (o.b ? "," + std::to_string(o.b) : "") + ")";
    if (!o.s.empty()) s += "<" + o.s + ">";
  }
  s += "]";
  for (auto &kv : p.knobs) s += " " + kv.first + "=" + std::to_string(kv.second);
  if (!p.proj.files.empty()) s += " " + project_brief(p.proj);
  for (auto &t : p.tasks) s += " {task " + project_brief(t.proj) + "}";
  if (s.size() > 1500) s = s.substr(0, 1500) + "...";
  return s;
}

// ------------------------------------------------------------------------------------------- outcome lines
std::string Outcome::to_line() const {
  Json j = Json::obj();
  j.set("v", violated).set("prop", prop).set("oracle", oracle).set("msg", msg).set("h", hex64(log_hash)).set("nt", nontrivial)
      .set("sig", hex64(state_sig)).set("more", more_subs).set("steps", sim_steps);
  Json s = Json::obj();
  for (auto &kv : stats.c) s.set(kv.first, kv.second);
  j.set("stats", s);
  return j.dump();
}
Outcome Outcome::from_line(const std::string &l) {
  Json j = Json::parse(l);
  Outcome o;
  o.violated = j.boolean("v"); o.prop = j.str("prop"); o.oracle = j.str("oracle"); o.msg = j.str("msg");
  o.log_hash = strtoull(j.str("h").c_str(), nullptr, 16); o.nontrivial = j.boolean("nt");
  o.state_sig = strtoull(j.str("sig").c_str(), nullptr, 16); o.more_subs = j.boolean("more"); o.sim_steps = j.num("steps");
  if (auto s = j.find("stats")) for (auto &kv : s->o) o.stats.c[kv.first] = kv.second.n;
  return o;
}

// ------------------------------------------------------------------------------------------- context
static void trace_write(const char *buf, size_t n) { ssize_t r = write(2, buf, n); (void)r; }

void Ctx::ev(const char *tag, long long a, long long b, long long c) {
  log.add(hash_str(tag)); log.add((uint64_t)a); log.add((uint64_t)b); log.add((uint64_t)c);
  if (trace) {
    char buf[256];
    int n = snprintf(buf, sizeof buf, "  ev %-14s %lld %lld %lld\n", tag, a, b, c);
    trace_write(buf, (size_t)n);
  }
}
void Ctx::evs(const char *tag, const std::string &s) {
  log.add(hash_str(tag)); log.add_str(s);
  if (trace) {
    trace_write("  ev ", 5); trace_write(tag, strlen(tag)); trace_write(" ", 1);
    trace_write(s.data(), std::min<size_t>(s.size(), 600)); trace_write("\n", 1);
  }
}
bool Ctx::fail(const std::string &prop, const std::string &oracle, const std::string &msg) {
  bool mine = (prop == focus) && (only_oracle.empty() || only_oracle == oracle);
  if (!mine) { stats.inc("other_oracle:" + prop + ":" + oracle); return false; }
  if (!violated) { violated = true; v_prop = prop; v_oracle = oracle; v_msg = msg; }
  if (trace) { std::string s = "  VIOLATION " + prop + " " + oracle + ": " + msg + "\n"; trace_write(s.data(), s.size()); }
  return true;
}

// ------------------------------------------------------------------------------------------- hook dispatch
static HookSink *g_sink = nullptr;
// Independent of any world's own monitor: a macro expansion whose stream keeps growing is bounded but can take hours
// (cubic, see DESIGN.md 12.2), and a change under test can make one LR parse spin while passing hook points.  Every
// compile in every world is abandoned - never judged - past the same cost caps.
static thread_local long long tl_pass_cost = 0, tl_lr_actions = 0, tl_lr_limit = 0, tl_lr_total = 0;
bool g_slow_abandoned = false;
long long g_pass_cost_cap = 60000000LL, g_lr_total_cap = 30000000LL;
static void hook_trampoline(int site, long a, long b) {
  __atomic_fetch_add(&g_progress, 1, __ATOMIC_RELAXED);   // free-running threads of the TSan stage pass here concurrently
  if (site == Theo::verif::MACRO_PASS) {
    if (a == 0) { tl_pass_cost = 0; tl_lr_total = 0; }
    tl_pass_cost += (long long)b * b;
    if (tl_pass_cost > g_pass_cost_cap) { tl_pass_cost = 0; __atomic_store_n(&g_slow_abandoned, true, __ATOMIC_RELAXED); throw SimAbort(); }
  } else if (site == Theo::verif::MACRO_DETECT) {
    tl_lr_actions = 0; tl_lr_limit = 64 * ((long long)b - a + 64);
  } else if (site == Theo::verif::LR_ACTION) {
    // one prefix parse makes a bounded number of moves per remaining token (W2 judges a tighter bound under C02)
    if (++tl_lr_actions > tl_lr_limit && tl_lr_limit > 0) { tl_lr_actions = 0; __atomic_store_n(&g_slow_abandoned, true, __ATOMIC_RELAXED); throw SimAbort(); }
    if (++tl_lr_total > g_lr_total_cap) { tl_lr_total = 0; __atomic_store_n(&g_slow_abandoned, true, __ATOMIC_RELAXED); throw SimAbort(); }
  }
  if (g_sink) g_sink->on_point(site, a, b);
}
void die_with_parent() { prctl(PR_SET_PDEATHSIG, SIGKILL); }
void install_hook(HookSink *s) {
  g_sink = s;
  Theo::verif::point_hook = hook_trampoline;   // always installed: every hook event counts as progress for the stall guard
}

// ------------------------------------------------------------------------------------------- dispatch
static std::string world_of(const std::string &prop) {
  if (prop == "C02" || prop == "C15" || prop == "C11") return "fs";
  if (prop == "C18") return "mt";
  return "vm";
}

Plan gen_plan(const std::string &prop, uint64_t verif_seed, long long run, long long sub, const std::string &tier) {
  uint64_t x = verif_seed ^ (hash_str(prop) * 0x9e3779b97f4a7c15ULL) ^ ((uint64_t)run * 0xd1342543de82ef95ULL);
  uint64_t seed_i = splitmix64(x);
  Rng rng(seed_i);
  Plan p;
  std::string w = world_of(prop);
  if (prop == "C20" && run % 4 == 3) w = "fs";   // the literal clause is decided in the file-store world
  if (w == "vm") p = gen_vm_plan(prop, rng, sub, tier);
  else if (w == "fs") p = gen_fs_plan(prop, rng, sub, tier);
  else p = gen_mt_plan(prop, rng, sub, tier);
  p.prop = prop; p.seed = verif_seed; p.run = run; p.sub = sub;
  if (p.world == "vm" || p.world == "fs") {
    // one run in eight starts in a process that has already compiled a sibling of this project (own generator: the plan itself is unchanged)
    Rng hr(seed_i ^ 0x9e3779b97f4a7c15ULL);
    if (hr.chance(1, 8)) attach_history(p, hr);
  }
  return p;
}

Outcome exec_plan(const Plan &plan, bool trace, const std::string &only_oracle) {
  Ctx ctx;
  ctx.focus = plan.prop; ctx.trace = trace; ctx.only_oracle = only_oracle;
  Outcome out;
  // what this process did earlier: executed in full, outcomes not judged (a crash in there is a crash of this run, attributed by phase as usual)
  if (!plan.history.empty()) {
    for (auto &h : plan.history) { Outcome ho = exec_plan(h, false); (void)ho; }
    ctx.stats.inc("fault_earlier_plans_in_process", (long long)plan.history.size());
  }
  install_hook(nullptr);
  set_phase(PH_HARNESS);
  try {
    if (plan.world == "vm") exec_vm_plan(plan, ctx, out);
    else if (plan.world == "mt") exec_mt_plan(plan, ctx, out);
    else exec_fs_plan(plan, ctx, out);
  } catch (SimAbort &) {
  }
  install_hook(nullptr);
  set_phase(PH_HARNESS);
  if (g_slow_abandoned) { ctx.stats.inc("skipped_slow"); g_slow_abandoned = false; }
  out.violated = ctx.violated; out.prop = ctx.v_prop; out.oracle = ctx.v_oracle; out.msg = ctx.v_msg;
  out.log_hash = ctx.log.get();
  out.sim_steps = ctx.sim_steps;
  out.stats.merge(ctx.stats);
  return out;
}

}  // namespace sim
