// Driver: forks a pool of workers (once, not per run), distributes run indices, collects outcomes, attributes
// worker deaths to a run and a phase, then gates, minimises and writes replay files for violations, and
// writes the evidence file.
#include <fcntl.h>
#include <poll.h>
#include <signal.h>
#include <sys/mman.h>
#include <sys/stat.h>
#include <sys/time.h>
#include <sys/wait.h>
#include <unistd.h>

#include <algorithm>
#include <functional>
#include <set>

#include "hll.hpp"
#include "sim.hpp"

namespace sim {

namespace {

double now_s() { struct timespec ts; clock_gettime(CLOCK_MONOTONIC, &ts); return ts.tv_sec + ts.tv_nsec * 1e-9; }

struct Slot { volatile long long run, sub; volatile int phase; volatile long long started_ms; };

struct Config {
  std::string prop, tier = "quick";
  uint64_t seed = 1;
  long long runs = 0;
  double budget_s = 0;
  int workers = 16;
  std::string evidence, replays = "replays", known = "known_findings.json", logs = "build/logs", dump_hashes;
  int max_report = 6;
};

struct TierParams { long long runs; double budget; const char *level; };
TierParams tier_params(const std::string &prop, const std::string &tier) {
  bool th = tier == "thorough";
  const char *level = (prop == "C02" || prop == "C15" || prop == "C17") ? "fault_enumeration" : "exploration";
  long long runs = th ? 300000 : 20000;
  double budget = th ? 600 : 40;
  if (prop == "C18") { runs = th ? 60000 : 4000; }
  if (prop == "C02" || prop == "C15" || prop == "C11") { runs = th ? 300000 : 16000; }
  return {runs, budget, level};
}

const char *phase_name(int ph) {
  switch (ph) {
    case PH_GEN: return "generate"; case PH_COMPILE: return "compile"; case PH_LOAD: return "load"; case PH_VMRUN: return "vmrun";
    case PH_SESSION: return "session";
    case PH_DEBUGGER: return "debugger"; case PH_SCAN: return "scan"; case PH_MACRO: return "macro"; case PH_HARNESS: return "harness";
    default: return "none";
  }
}
// which property a crash in this phase violates
std::string crash_property(int ph, const std::string &focus) {
  switch (ph) {
    case PH_COMPILE: case PH_SCAN: case PH_MACRO: return focus == "C15" || focus == "C11" || focus == "C18" ? focus : "C02";
    case PH_VMRUN: case PH_LOAD: return focus == "C18" ? focus : "C03";
    case PH_DEBUGGER: return focus;
    // the uninterrupted run executed these very instructions without a crash: the debugger history made the difference
    case PH_SESSION: return focus == "C05" || focus == "C06" || focus == "C07" || focus == "C17" || focus == "C19" ? focus : "C03";
    default: return "";
  }
}

// first source position inside the repository named by a sanitizer / assertion report: "file.cpp:line"
std::string crash_site(const std::string &err) {
  const char *repo = getenv("THEO_REPO");
  std::string root = repo && *repo ? repo : "/repo";
  size_t p = 0;
  while ((p = err.find(root + "/", p)) != std::string::npos) {
    size_t q = p + root.size() + 1, e = q;
    while (e < err.size() && (isalnum((unsigned char)err[e]) || err[e] == '/' || err[e] == '.' || err[e] == '_' || err[e] == '-')) e++;
    if (e < err.size() && err[e] == ':' && e + 1 < err.size() && isdigit((unsigned char)err[e + 1])) {
      size_t l = e + 1;
      while (l < err.size() && isdigit((unsigned char)err[l])) l++;
      std::string path = err.substr(q, e - q);
      size_t slash = path.rfind('/');
      return (slash == std::string::npos ? path : path.substr(slash + 1)) + ":" + err.substr(e + 1, l - e - 1);
    }
    p = q;
  }
  return "";
}
std::string crash_headline(const std::string &e) {
  size_t p = e.find("runtime error"); if (p == std::string::npos) p = e.find("ERROR: AddressSanitizer"); if (p == std::string::npos) p = e.find("Assertion");
  if (p == std::string::npos) return e.substr(0, 300);
  size_t s = e.rfind('\n', p); s = s == std::string::npos ? 0 : s + 1; size_t q = e.find('\n', p);
  return e.substr(s, (q == std::string::npos ? e.size() : q) - s).substr(0, 400);
}

// ---------------------------------------------------------------- running one plan in a child (fork, no exec)
struct ChildResult { bool crashed = false, timed_out = false; int phase = 0; int status = 0; Outcome out; std::string err, site; };

ChildResult run_in_child(const Plan &plan, const std::string &only_oracle, int timeout_s, const std::string &errfile) {
  ChildResult r;
  int pfd[2];
  if (pipe(pfd) != 0) throw std::runtime_error("pipe");
  int *slot = (int *)mmap(nullptr, sizeof(int), PROT_READ | PROT_WRITE, MAP_SHARED | MAP_ANONYMOUS, -1, 0);
  *slot = 0;
  fflush(stdout); fflush(stderr);
  pid_t pid = fork();
  if (pid == 0) {
    close(pfd[0]);
    int fd = open(errfile.c_str(), O_WRONLY | O_CREAT | O_TRUNC, 0644);
    if (fd >= 0) { dup2(fd, 2); close(fd); }
    g_phase_slot = slot;
    die_with_parent();
    arm_guard(30, timeout_s);
    Outcome o = exec_plan(plan, false, only_oracle);
    std::string line = o.to_line() + "\n";
    ssize_t w = write(pfd[1], line.data(), line.size()); (void)w;
    _exit(0);
  }
  close(pfd[1]);
  std::string buf; char tmp[65536]; ssize_t n;
  while ((n = read(pfd[0], tmp, sizeof tmp)) > 0) buf.append(tmp, (size_t)n);
  close(pfd[0]);
  int st = 0;
  waitpid(pid, &st, 0);
  r.status = st; r.phase = *slot;
  munmap(slot, sizeof(int));
  if (WIFEXITED(st) && (WEXITSTATUS(st) == 99 || WEXITSTATUS(st) == 98)) { r.timed_out = true; r.crashed = true; }
  else if (!(WIFEXITED(st) && WEXITSTATUS(st) == 0) || buf.empty()) r.crashed = true;
  if (!r.crashed) r.out = Outcome::from_line(buf.substr(0, buf.find('\n')));
  else {
    try {
      std::string e = read_file(errfile);
      r.err = crash_headline(e);
      r.site = crash_site(e);
    } catch (...) {}
  }
  return r;
}

struct Verdict { bool bad = false; std::string prop, oracle, msg; uint64_t hash = 0; };

Verdict verdict_of(const ChildResult &c, const std::string &focus) {
  Verdict v;
  if (c.crashed) {
    std::string p = crash_property(c.phase, focus);
    if ((c.phase == PH_VMRUN || (c.phase == PH_SESSION && p == "C03")) && c.err.find("signed integer overflow") != std::string::npos) p = "C20";
    v.bad = !p.empty() && p == focus;
    v.prop = p;
    v.oracle = std::string(c.timed_out ? "hang:" : "crash:") + phase_name(c.phase) + (c.site.empty() || c.timed_out ? "" : "@" + c.site);
    v.msg = c.timed_out ? "the library made no progress (no hook point passed, no return) for 30 s, or the run exceeded its wall-clock limit: it is in a loop" : c.err;
    v.hash = hash_str(v.oracle);
    if (p.empty()) { v.prop = "infrastructure"; }
  } else {
    v.bad = c.out.violated; v.prop = c.out.prop; v.oracle = c.out.oracle; v.msg = c.out.msg; v.hash = c.out.log_hash;
  }
  return v;
}

// ---------------------------------------------------------------- shrinking
struct Shrinker {
  const Config &cfg;
  std::string oracle;      // the class being minimised
  std::string errfile;
  int evals = 0, max_evals = 600;
  double t_start = now_s(), max_seconds = 90;

  bool reproduces(const Plan &p) {
    if (evals >= max_evals || now_s() - t_start > max_seconds) return false;
    evals++;
    ChildResult c = run_in_child(p, oracle.rfind("crash:", 0) == 0 || oracle.rfind("hang:", 0) == 0 ? "" : oracle, 60, errfile);
    Verdict v = verdict_of(c, p.prop);
    return v.bad && v.oracle == oracle;
  }

  template <class T>
  void ddmin(std::vector<T> &items, const std::function<bool()> &test) {
    size_t chunk = items.size() / 2;
    while (chunk >= 1 && !items.empty()) {
      bool removed = false;
      for (size_t i = 0; i < items.size();) {
        size_t n = std::min(chunk, items.size() - i);
        std::vector<T> keep(items.begin() + i, items.begin() + i + n);
        items.erase(items.begin() + i, items.begin() + i + n);
        if (test()) removed = true;
        else { items.insert(items.begin() + i, keep.begin(), keep.end()); i += n; }
      }
      if (!removed) chunk /= 2;
      else chunk = std::min(chunk, items.size() / 2 ? items.size() / 2 : (size_t)1);
      if (evals >= max_evals) break;
    }
  }

  void shrink_project(Project &proj, const std::function<bool()> &test) {
    if (proj.has_ast) {
      // layout first
      { Layout keep = proj.layout; if (proj.layout.nfiles != 1) { proj.layout.nfiles = 1; render(proj); if (!test()) { proj.layout = keep; render(proj); } } }
      { Layout keep = proj.layout; if (proj.layout.style != 0) { proj.layout.style = 0; render(proj); if (!test()) { proj.layout = keep; render(proj); } } }
      { Layout keep = proj.layout; if (proj.layout.cut_defs != 0) { proj.layout.cut_defs = 0; render(proj); if (!test()) { proj.layout = keep; render(proj); } } }
      { Layout keep = proj.layout; if (proj.layout.naming != 0) { proj.layout.naming = 0; render(proj); if (!test()) { proj.layout = keep; render(proj); } } }
      { Layout keep = proj.layout; if (proj.layout.spelling != 0) { proj.layout.spelling = 0; render(proj); if (!test()) { proj.layout = keep; render(proj); } } }
      bool progress = true;
      while (progress && evals < max_evals) {
        progress = false;
        std::vector<Ast> cands = ast_reductions(proj.ast);
        for (auto &c : cands) {
          Ast keep = proj.ast;
          proj.ast = c; render(proj);
          if (test()) { progress = true; break; }
          proj.ast = keep; render(proj);
          if (evals >= max_evals) break;
        }
      }
      // smaller layouts again after the AST shrank
      for (int nf = 1; nf < proj.layout.nfiles; nf++) { Layout keep = proj.layout; proj.layout.nfiles = nf; render(proj); if (test()) break; proj.layout = keep; render(proj); }
      // layout-sensitive violations resist AST reduction (every reduction re-draws the layout): if the oracle does
      // not need the AST, continue on the text itself
      size_t bytes = 0;
      for (auto &kv : proj.files) bytes += kv.second.size();
      if (bytes > 100) {
        Project keep = proj;
        proj.has_ast = false;
        if (test()) shrink_project(proj, test);
        else proj = keep;
      }
    } else {
      // raw files: drop files, then lines, then whitespace-separated words
      std::vector<std::string> names;
      for (auto &kv : proj.files) names.push_back(kv.first);
      for (auto &n : names) {
        if (n == proj.main) continue;
        std::string keep = proj.files[n];
        proj.files.erase(n);
        if (!test()) proj.files[n] = keep;
      }
      for (auto &kv : proj.files) {
        std::string &text = proj.files[kv.first];
        for (int pass = 0; pass < 2; pass++) {
          char sepc = pass == 0 ? '\n' : ' ';
          std::vector<std::string> parts; std::string cur;
          for (char ch : text) { if (ch == sepc) { parts.push_back(cur); cur.clear(); } else cur += ch; }
          parts.push_back(cur);
          auto join = [&]() { std::string t; for (size_t i = 0; i < parts.size(); i++) { if (i) t += sepc; t += parts[i]; } return t; };
          std::string orig = text;
          ddmin<std::string>(parts, [&]() { text = join(); return test(); });
          text = join();
          (void)orig;
        }
      }
    }
  }

  Plan shrink(Plan p) {
    auto test = [&]() { return reproduces(p); };
    if (!p.tasks.empty()) {
      // mt: zero the schedule, drop tasks, shrink each task
      { auto keep = p.schedule; p.schedule.clear(); if (!test()) p.schedule = keep; }
      ddmin<int>(p.schedule, test);
      for (auto &x : p.schedule) if (x != 0) { int k = x; x = 0; if (!test()) x = k; }
      while (!p.schedule.empty() && p.schedule.back() == 0) p.schedule.pop_back();
      for (size_t i = 0; i < p.tasks.size() && p.tasks.size() > 1;) { Task keep = p.tasks[i]; p.tasks.erase(p.tasks.begin() + i); if (!test()) { p.tasks.insert(p.tasks.begin() + i, keep); i++; } }
      for (auto &t : p.tasks) { ddmin<Op>(t.ops, test); shrink_project(t.proj, test); }
      return p;
    }
    if (!p.history.empty()) {
      // earlier plans of the process: as few as possible, each reduced to "compile these files" where that is enough
      if (p.history.size() > 1) ddmin<Plan>(p.history, test);
      for (auto &h : p.history) {
        Plan keep = h;
        Plan m = h.world == "fs" && !h.ops.empty() ? materialise_fs_plan(h) : h;
        m.world = "fs"; m.ops.clear(); m.knobs.clear(); m.history.clear(); m.tasks.clear(); m.schedule.clear(); m.note = "earlier in the same process: compile these files";
        h = m;
        if (!test()) h = keep;
      }
      if (p.history.size() <= 2) for (auto &h : p.history) if (h.ops.empty()) shrink_project(h.proj, test);
    }
    ddmin<Op>(p.ops, test);
    if (p.world == "fs" && p.prop == "C02" && !p.ops.empty()) {
      // turn the faults into plain text: what was delivered becomes the project
      Plan m = materialise_fs_plan(p);
      Plan keep = p;
      p = m;
      if (!test()) p = keep;
    }
    for (auto &o : p.ops) {
      if (o.a > 1) { long long k = o.a; o.a = 1; if (!test()) { o.a = k / 2; if (o.a < 1 || !test()) o.a = k; } }
    }
    shrink_project(p.proj, test);
    ddmin<Op>(p.ops, test);
    return p;
  }
};

// ---------------------------------------------------------------- known findings
struct Known { std::string prop, oracle, match, what; };
std::vector<Known> load_known(const std::string &path) {
  std::vector<Known> k;
  try {
    Json j = Json::parse(read_file(path));
    if (auto f = j.find("findings")) for (auto &e : f->a) k.push_back({e.str("property"), e.str("oracle"), e.str("match"), e.str("what")});
  } catch (...) {}
  return k;
}

struct Candidate { long long run, sub; bool crash; int phase; Outcome out; bool hang = false; long long hist_first = -1; };

}  // namespace

// ======================================================================================================
int replay_main(const std::string &path, bool quiet) {
  Json j = Json::parse(read_file(path));
  Plan p = plan_from_json(j.has("plan") ? j.at("plan") : j);
  std::string want_oracle = j.str("oracle"), want_hash = j.str("event_log_hash");
  if (!quiet) fprintf(stderr, "replaying %s: property %s, world %s, seed %llu run %lld sub %lld\n", path.c_str(), p.prop.c_str(), p.world.c_str(), (unsigned long long)p.seed, p.run, p.sub);
  // the plan runs in a child so that a crash-class violation is reported instead of taking the replayer down
  int pfd[2];
  if (pipe(pfd) != 0) return 2;
  int *slot = (int *)mmap(nullptr, sizeof(int), PROT_READ | PROT_WRITE, MAP_SHARED | MAP_ANONYMOUS, -1, 0);
  *slot = 0;
  std::string errfile = "build/replay." + std::to_string(getpid()) + ".err";
  fflush(stdout); fflush(stderr);
  pid_t pid = fork();
  if (pid == 0) {
    close(pfd[0]);
    g_phase_slot = slot;
    die_with_parent();
    if (quiet) { int fd = open(errfile.c_str(), O_WRONLY | O_CREAT | O_TRUNC, 0644); if (fd >= 0) { dup2(fd, 2); close(fd); } }
    arm_guard(30, 900);
    Outcome o = exec_plan(p, !quiet);
    std::string line = o.to_line() + "\n";
    ssize_t w = write(pfd[1], line.data(), line.size()); (void)w;
    _exit(0);
  }
  close(pfd[1]);
  std::string buf; char tmp[65536]; ssize_t n;
  while ((n = read(pfd[0], tmp, sizeof tmp)) > 0) buf.append(tmp, (size_t)n);
  close(pfd[0]);
  int st = 0; waitpid(pid, &st, 0);
  ChildResult c; c.status = st; c.phase = *slot;
  munmap(slot, sizeof(int));
  if (!(WIFEXITED(st) && WEXITSTATUS(st) == 0) || buf.empty()) {
    c.crashed = true;
    if (WIFEXITED(st) && (WEXITSTATUS(st) == 99 || WEXITSTATUS(st) == 98)) c.timed_out = true;
    if (quiet) { try { std::string e = read_file(errfile); c.err = crash_headline(e); c.site = crash_site(e); } catch (...) {} }
  } else c.out = Outcome::from_line(buf.substr(0, buf.find('\n')));
  unlink(errfile.c_str());
  Verdict v = verdict_of(c, p.prop);
  if (c.crashed && WIFEXITED(st) && WEXITSTATUS(st) == 66) { v.bad = true; v.prop = p.prop; v.oracle = "tsan_report_free_running"; v.msg = "ThreadSanitizer reported a data race while the tasks ran on free-running threads"; }
  if (!c.crashed) printf("%s\n", c.out.to_line().c_str());
  if (v.bad) {
    bool same_class = want_oracle.empty() || want_oracle == v.oracle || (c.crashed && !quiet && want_oracle.rfind(std::string("crash:") + phase_name(c.phase), 0) == 0);
    bool same_hash = c.crashed || want_hash.empty() || want_hash == hex64(v.hash);
    printf("VIOLATION property=%s replay=%s\n", v.prop.c_str(), path.c_str());
    fprintf(stderr, "violation of %s (%s): %s\n%s\n", v.prop.c_str(), v.oracle.c_str(), v.msg.c_str(),
            same_class && same_hash ? "reproduced: same oracle and same event-log hash as recorded" : same_class ? "same oracle as recorded, but a different event-log hash (the code under test changed?)" : "a different oracle than recorded fails now");
    return 1;
  }
  if (c.crashed) { fprintf(stderr, "the replay died outside a library phase (%s): %s\n", phase_name(c.phase), c.err.c_str()); return 2; }
  if (!quiet) fprintf(stderr, "no violation: the property held on this plan%s\n", want_oracle.empty() ? "" : (" (recorded: " + want_oracle + ")").c_str());
  return 0;
}

static void worker_main(const Config &cfg, int k, long long first_run, int wfd, Slot *slot, double deadline, int sample_runs) {
  std::string errpath = cfg.logs + "/" + cfg.prop + ".w" + std::to_string(k) + ".err";
  int efd = open(errpath.c_str(), O_WRONLY | O_CREAT | O_TRUNC, 0644);
  if (efd >= 0) { dup2(efd, 2); close(efd); }
  g_phase_slot = &slot->phase;
  die_with_parent();
  setpgid(0, 0);   // own process group: the driver can remove a worker together with whatever it forked
  const bool fresh_per_run = cfg.prop == "C18";
  if (!fresh_per_run) arm_guard(30, 600);
  auto send = [&](const std::string &s) { size_t off = 0; while (off < s.size()) { ssize_t w = write(wfd, s.data() + off, s.size() - off); if (w <= 0) _exit(3); off += (size_t)w; } };
  for (long long run = first_run; run < cfg.runs; run += cfg.workers) {
    if (now_s() > deadline) break;
    for (long long sub = 0;; sub++) {
      slot->run = run; slot->sub = sub; slot->phase = PH_GEN; slot->started_ms = (long long)(now_s() * 1000);
      if (ftruncate(2, 0) == 0) lseek(2, 0, SEEK_SET);
      run_started();
      Plan p = gen_plan(cfg.prop, cfg.seed, run, sub, cfg.tier);
      Outcome o;
      if (fresh_per_run) {
        // the worker itself never calls the library: every run starts in a process without history
        int pfd[2];
        if (pipe(pfd) != 0) _exit(3);
        pid_t pid = fork();
        if (pid == 0) {
          close(pfd[0]);
          die_with_parent();
          arm_guard(30, 600);
          Outcome oc = exec_plan(p, false);
          std::string l = oc.to_line() + "\nH " + g_hll_states.hex() + "\n";
          size_t off = 0;
          while (off < l.size()) { ssize_t w = write(pfd[1], l.data() + off, l.size() - off); if (w <= 0) break; off += (size_t)w; }
          _exit(0);
        }
        close(pfd[1]);
        std::string buf; char tmp[65536]; ssize_t n;
        while ((n = read(pfd[0], tmp, sizeof tmp)) > 0) buf.append(tmp, (size_t)n);
        close(pfd[0]);
        int st = 0; waitpid(pid, &st, 0);
        if (!(WIFEXITED(st) && WEXITSTATUS(st) == 0) || buf.empty()) {
          std::string werr; try { werr = read_file(errpath); } catch (...) {}
          bool stalled = WIFEXITED(st) && (WEXITSTATUS(st) == 99 || WEXITSTATUS(st) == 98);
          send("X " + std::to_string(run) + " " + std::to_string(sub) + " " + std::to_string((int)slot->phase) + " " + (stalled ? std::string("stalled") : crash_site(werr)) + "\n");
          break;
        }
        o = Outcome::from_line(buf.substr(0, buf.find('\n')));
        size_t hp = buf.find("\nH ");
        if (hp != std::string::npos) { Hll h; h.from_hex(buf.substr(hp + 3)); g_hll_states.merge(h); }
      } else o = exec_plan(p, false);
      std::string line = "R " + std::to_string(run) + " " + std::to_string(sub) + " " + o.to_line();
      if (run < sample_runs * (long long)cfg.workers && sub == 0 && k == 0) { std::string b = plan_brief(p); Json jb(b); line += "\tS" + jb.dump(); }
      send(line + "\n");
      if (!o.more_subs || now_s() > deadline) break;
    }
  }
  slot->phase = PH_NONE;
  send("H " + g_hll_states.hex() + "\n");
  send("Z\n");
  _exit(0);
}

int check_main(Config cfg) {
  TierParams tp = tier_params(cfg.prop, cfg.tier);
  if (cfg.runs <= 0) cfg.runs = tp.runs;
  if (cfg.budget_s <= 0) cfg.budget_s = tp.budget;
  if (const char *e = getenv("VERIF_BUDGET_S")) cfg.budget_s = atof(e);
  if (const char *e = getenv("VERIF_RUNS")) cfg.runs = atoll(e);
  if (cfg.evidence.empty()) cfg.evidence = "evidence/" + cfg.prop + ".json";
  mkdir("build", 0755); mkdir(cfg.logs.c_str(), 0755); mkdir(cfg.replays.c_str(), 0755); mkdir("evidence", 0755);
  double t0 = now_s();
  double deadline = t0 + cfg.budget_s;
  fprintf(stderr, "[check %s %s] seed=%llu runs<=%lld budget=%.0fs workers=%d\n", cfg.prop.c_str(), cfg.tier.c_str(), (unsigned long long)cfg.seed, cfg.runs, cfg.budget_s, cfg.workers);

  int W = cfg.workers;
  Slot *slots = (Slot *)mmap(nullptr, sizeof(Slot) * (size_t)W, PROT_READ | PROT_WRITE, MAP_SHARED | MAP_ANONYMOUS, -1, 0);
  struct WState { pid_t pid = -1; int fd = -1; std::string buf; bool done = false; long long last_run = -1; double last_progress = 0; bool late_reported = false; long long proc_first = -1; };
  std::vector<WState> ws((size_t)W);
  auto spawn = [&](int k, long long first_run) {
    int pfd[2];
    if (pipe(pfd) != 0) throw std::runtime_error("pipe");
    fflush(stdout); fflush(stderr);
    slots[k].run = -1; slots[k].phase = PH_NONE;
    pid_t pid = fork();
    if (pid == 0) {
      close(pfd[0]);
      for (auto &w : ws) if (w.fd >= 0) close(w.fd);
      worker_main(cfg, k, first_run, pfd[1], &slots[k], deadline, 3);
    }
    close(pfd[1]);
    ws[(size_t)k].pid = pid; ws[(size_t)k].fd = pfd[0]; ws[(size_t)k].buf.clear(); ws[(size_t)k].done = false; ws[(size_t)k].last_progress = now_s(); ws[(size_t)k].proc_first = first_run;
  };
  for (int k = 0; k < W; k++) spawn(k, k);

  // aggregation
  long long evaluations = 0, nontrivial = 0;
  std::set<uint64_t> distinct_nt, distinct_sigs;
  Stats stats;
  long long sim_steps = 0;
  Hll hll;
  std::vector<Candidate> cands;
  std::vector<std::string> samples;
  long long foreign_crashes = 0;
  int infra_errors = 0;
  std::map<std::string, int> cand_per_class;
  std::map<std::pair<long long, long long>, uint64_t> all_hashes;
  const double HANG_S = 300;

  auto handle_line = [&](int k, const std::string &line) {
    if (line.empty()) return;
    if (line[0] == 'R') {
      long long run, sub; int off = 0;
      if (sscanf(line.c_str(), "R %lld %lld %n", &run, &sub, &off) < 2) return;
      std::string rest = line.substr((size_t)off);
      size_t sp = rest.find("\tS");
      std::string sample;
      if (sp != std::string::npos) { sample = rest.substr(sp + 2); rest = rest.substr(0, sp); }
      Outcome o = Outcome::from_line(rest);
      evaluations++;
      sim_steps += o.sim_steps;
      stats.merge(o.stats);
      if (!cfg.dump_hashes.empty()) all_hashes[{run, sub}] = o.log_hash;
      if (o.nontrivial) { nontrivial++; distinct_nt.insert(o.log_hash); }
      if (o.state_sig) distinct_sigs.insert(o.state_sig);
      if (!sample.empty() && samples.size() < 3) samples.push_back(Json::parse(sample).s);
      if (o.violated) {
        std::string cls = o.prop + ":" + o.oracle;
        if (cand_per_class[cls]++ < 3) { Candidate c{run, sub, false, 0, o}; c.hist_first = ws[(size_t)k].proc_first; cands.push_back(c); }
      }
      ws[(size_t)k].last_run = run; ws[(size_t)k].last_progress = now_s();
    } else if (line[0] == 'X') {
      long long run, sub; int ph = 0; char site[256] = {0};
      if (sscanf(line.c_str(), "X %lld %lld %d %255s", &run, &sub, &ph, site) < 3) return;
      evaluations++;
      std::string p = crash_property(ph, cfg.prop);
      if (p == cfg.prop) {
        std::string cls = std::string("crash:") + phase_name(ph) + "@" + site;
        if (cand_per_class[cls]++ < 2) { Candidate c{run, sub, true, ph, Outcome()}; c.hang = std::string(site) == "stalled"; cands.push_back(c); }
        stats.inc("crash:" + std::string(phase_name(ph)));
      } else if (p.empty()) { infra_errors++; fprintf(stderr, "[check] run %lld died outside a library phase (%s)\n", run, phase_name(ph)); }
      else { foreign_crashes++; stats.inc(std::string("foreign_crash:") + p + ":" + phase_name(ph)); }
      ws[(size_t)k].last_run = run; ws[(size_t)k].last_progress = now_s();
    } else if (line[0] == 'H') { Hll h; h.from_hex(line.substr(2)); hll.merge(h); }
    else if (line[0] == 'Z') ws[(size_t)k].done = true;
  };

  int live = W, deadline_kills = 0;
  while (live > 0) {
    std::vector<pollfd> pfds;
    std::vector<int> idx;
    for (int k = 0; k < W; k++) if (ws[(size_t)k].fd >= 0) { pfds.push_back({ws[(size_t)k].fd, POLLIN, 0}); idx.push_back(k); }
    if (pfds.empty()) break;
    int pr = poll(pfds.data(), pfds.size(), 1000);
    if (pr < 0 && errno != EINTR) break;
    for (size_t i = 0; i < pfds.size(); i++) {
      int k = idx[i];
      WState &w = ws[(size_t)k];
      if (pfds[i].revents & (POLLIN | POLLHUP)) {
        char tmp[65536];
        ssize_t n = read(w.fd, tmp, sizeof tmp);
        if (n > 0) {
          w.buf.append(tmp, (size_t)n);
          size_t p;
          while ((p = w.buf.find('\n')) != std::string::npos) { handle_line(k, w.buf.substr(0, p)); w.buf.erase(0, p + 1); }
        } else if (n == 0) {
          close(w.fd); w.fd = -1;
          int st = 0; waitpid(w.pid, &st, 0);
          if (!w.done) {
            long long run = slots[k].run, sub = slots[k].sub; int ph = slots[k].phase;
            bool hang = (WIFSIGNALED(st) && WTERMSIG(st) == SIGKILL) || (WIFEXITED(st) && (WEXITSTATUS(st) == 99 || WEXITSTATUS(st) == 98));
            if (WIFSIGNALED(st) && WTERMSIG(st) == SIGKILL && now_s() > deadline + 120) { stats.inc("removed_after_budget"); evaluations++; live--; continue; }
            std::string p = crash_property(ph, cfg.prop);
            std::string werr;
            try { werr = read_file(cfg.logs + "/" + cfg.prop + ".w" + std::to_string(k) + ".err"); } catch (...) {}
            if ((ph == PH_VMRUN || (ph == PH_SESSION && p == "C03")) && werr.find("signed integer overflow") != std::string::npos) p = "C20";
            std::string wsite = crash_site(werr);
            if (run < 0 || p.empty()) { infra_errors++; fprintf(stderr, "[check] worker %d died outside a library phase (run %lld, phase %s, status %d): %s\n", k, run, phase_name(ph), st, crash_headline(werr).c_str()); }
            else if (p != cfg.prop) { foreign_crashes++; stats.inc(std::string("foreign_crash:") + p + ":" + phase_name(ph)); }
            else {
              std::string cls = std::string("crash:") + phase_name(ph) + "@" + wsite;
              if (cand_per_class[cls]++ < 2) { Candidate c{run, sub, true, ph, Outcome()}; c.hang = hang; cands.push_back(c); }
              stats.inc("crash:" + std::string(phase_name(ph)));
            }
            evaluations++;
            if (run >= 0 && now_s() < deadline) { spawn(k, run + W); continue; }
          }
          live--;
        }
      }
      if (w.fd >= 0 && !w.done && now_s() - w.last_progress > HANG_S && slots[k].run >= 0 && slots[k].phase != PH_NONE) {
        fprintf(stderr, "[check] worker %d makes no progress in run %lld, killing it\n", k, (long long)slots[k].run);
        kill(-w.pid, SIGKILL); kill(w.pid, SIGKILL);
        w.last_progress = now_s();
      }
      if (w.fd >= 0 && !w.done && now_s() > deadline + 15 && !w.late_reported && slots[k].run >= 0) {
        w.late_reported = true;
        fprintf(stderr, "[check] worker %d is still in run %lld (sub %lld, %s) 15 s after the budget ended\n", k, (long long)slots[k].run, (long long)slots[k].sub, phase_name(slots[k].phase));
      }
      // the exploration budget is over: a worker that is still inside a run two minutes later is removed
      if (w.fd >= 0 && !w.done && now_s() > deadline + 120) {
        fprintf(stderr, "[check] worker %d still busy with run %lld two minutes after the budget ended, removing it\n", k, (long long)slots[k].run);
        kill(-w.pid, SIGKILL); kill(w.pid, SIGKILL);
        deadline_kills++;
      }
    }
    live = 0;
    for (auto &w : ws) if (w.fd >= 0) live++;
  }
  double t_explore = now_s() - t0;
  fprintf(stderr, "[check %s] explored %lld runs in %.1fs (%lld nontrivial, %zu distinct), %zu violation candidates, %lld foreign crashes\n", cfg.prop.c_str(), evaluations, t_explore, nontrivial, distinct_nt.size(), cands.size(), foreign_crashes);

  if (!cfg.dump_hashes.empty()) {
    std::string t;
    for (auto &kv : all_hashes) t += std::to_string(kv.first.first) + " " + std::to_string(kv.first.second) + " " + hex64(kv.second) + "\n";
    write_file(cfg.dump_hashes, t);
  }
  // ------------------------------------------------------------ candidates: gate, minimise, replay
  std::vector<Known> known = load_known(cfg.known);
  int violations = 0, known_hits = 0;
  std::vector<std::string> known_lines;
  std::set<std::string> reported_classes;
  int exit_code = 0;
  std::string errfile = cfg.logs + "/" + cfg.prop + ".child.err";
  for (auto &c : cands) {
    if ((int)reported_classes.size() >= cfg.max_report) break;
    Plan p = gen_plan(cfg.prop, cfg.seed, c.run, c.sub, cfg.tier);
    // gate: twice in fresh processes, same class and same event-log hash
    ChildResult r1 = run_in_child(p, "", 300, errfile);
    Verdict v1 = verdict_of(r1, cfg.prop);
    ChildResult r2 = run_in_child(p, "", 300, errfile);
    Verdict v2 = verdict_of(r2, cfg.prop);
    if (!v1.bad && !v2.bad && !c.crash && c.hist_first >= 0 && c.hist_first < c.run && p.world != "mt") {
      // Not a property of this plan alone.  The worker that reported it had executed other plans before it in the same
      // process; what a process did earlier must not matter, so that history becomes part of the plan: all of it first,
      // then as few earlier plans as still reproduce the report.
      std::vector<Plan> hist;
      for (long long h = c.hist_first; h < c.run; h += cfg.workers)
        for (long long hs = 0; hs < 64; hs++) {
          Plan hp = gen_plan(cfg.prop, cfg.seed, h, hs, cfg.tier);
          hist.push_back(hp);
          if (!hp.knobs.count("enum_total") || hs + 1 >= hp.knobs["enum_total"]) break;
        }
      for (long long hs = 0; hs < c.sub && hs < 64; hs++) hist.push_back(gen_plan(cfg.prop, cfg.seed, c.run, hs, cfg.tier));
      if (hist.size() > 400) hist.erase(hist.begin(), hist.end() - 400);
      Plan ph = p; ph.history = hist;
      ChildResult h1 = run_in_child(ph, "", 600, errfile);
      Verdict hv1 = verdict_of(h1, cfg.prop);
      if (hv1.bad && !h1.crashed) {
        auto still = [&](const std::vector<Plan> &hh) { Plan q = p; q.history = hh; ChildResult r = run_in_child(q, "", 600, errfile); Verdict v = verdict_of(r, cfg.prop); return v.bad && !r.crashed && v.oracle == hv1.oracle; };
        // the last few plans first, then ddmin
        for (size_t keep : {(size_t)1, (size_t)4, (size_t)16}) if (hist.size() > keep) { std::vector<Plan> t(hist.end() - (long)keep, hist.end()); if (still(t)) { hist = t; break; } }
        for (size_t chunk = hist.size() / 2; chunk >= 1 && hist.size() > 1; ) {
          bool removed = false;
          for (size_t i = 0; i + chunk <= hist.size() && hist.size() > 1;) {
            std::vector<Plan> t(hist.begin(), hist.begin() + (long)i); t.insert(t.end(), hist.begin() + (long)(i + chunk), hist.end());
            if (!t.empty() && still(t)) { hist = t; removed = true; } else i += chunk;
          }
          if (chunk == 1 && !removed) break;
          if (!removed || chunk > hist.size() / 2) chunk = std::max<size_t>(1, chunk / 2);
          if (chunk == 1 && hist.size() == 1) break;
        }
        p.history = hist;
        p.note += " + " + std::to_string(hist.size()) + " earlier plan(s) of the same process";
        fprintf(stderr, "[check] candidate run %lld sub %lld needs the history of its process: reduced to %zu earlier plan(s)\n", c.run, c.sub, hist.size());
        r1 = run_in_child(p, "", 300, errfile); v1 = verdict_of(r1, cfg.prop);
        r2 = run_in_child(p, "", 300, errfile); v2 = verdict_of(r2, cfg.prop);
      }
    }
    if (!v1.bad || !v2.bad || v1.oracle != v2.oracle || v1.hash != v2.hash) {
      fprintf(stderr, "[check] candidate run %lld sub %lld did not reproduce identically in fresh processes (%d/%d, %s vs %s): engine error\n", c.run, c.sub, v1.bad, v2.bad, v1.oracle.c_str(), v2.oracle.c_str());
      exit_code = 2;
      continue;
    }
    std::string cls = v1.prop + ":" + v1.oracle;
    if (reported_classes.count(cls)) continue;
    reported_classes.insert(cls);
    Shrinker sh{cfg, v1.oracle, errfile};
    size_t before_ops = p.ops.size(), before_text = 0;
    for (auto &kv : p.proj.files) before_text += kv.second.size();
    Plan m = sh.shrink(p);
    size_t after_text = 0;
    for (auto &kv : m.proj.files) after_text += kv.second.size();
    // final replay file, verified once more in a fresh process
    ChildResult rf = run_in_child(m, "", 300, errfile);
    Verdict vf = verdict_of(rf, cfg.prop);
    if (!vf.bad || vf.oracle != v1.oracle) { m = p; vf = v1; }
    if (heap_is_seeded()) m.knobs["seeded_heap"] = 1;   // ./check replay then takes the build with the seeded allocator
    Json rj = Json::obj();
    rj.set("property", vf.prop).set("oracle", vf.oracle).set("message", vf.msg).set("event_log_hash", hex64(vf.hash)).set("found_by", "seed " + std::to_string(cfg.seed) + " run " + std::to_string(c.run) + " sub " + std::to_string(c.sub) + " tier " + cfg.tier)
        .set("minimisation", "ops " + std::to_string(before_ops) + " -> " + std::to_string(m.ops.size()) + ", text " + std::to_string(before_text) + " -> " + std::to_string(after_text) + " bytes, " + std::to_string(sh.evals) + " re-runs")
        .set("replay_cmd", "./check replay <this file>").set("plan", plan_to_json(m));
    std::string oname = vf.oracle; for (auto &ch : oname) if (ch == ':' || ch == '/' || ch == '@') ch = '_';
    std::string path = cfg.replays + "/" + cfg.prop + "-" + oname + "-" + std::to_string(cfg.seed) + "-" + std::to_string(c.run) + ".json";
    write_file(path, rj.dump(1));
    // known finding?
    std::string hay = vf.msg + " " + plan_brief(m);
    bool is_known = false;
    for (auto &k : known) if (k.prop == vf.prop && (k.oracle.empty() || k.oracle == vf.oracle) && (k.match.empty() || hay.find(k.match) != std::string::npos)) { is_known = true; known_lines.push_back("KNOWN-FINDING: property=" + vf.prop + " " + k.what); }
    if (is_known) { known_hits++; printf("%s\n", known_lines.back().c_str()); }
    else {
      violations++;
      printf("VIOLATION property=%s replay=%s\n", vf.prop.c_str(), path.c_str());
      fprintf(stderr, "  oracle %s: %s\n  %s\n", vf.oracle.c_str(), vf.msg.c_str(), rj.str("minimisation").c_str());
    }
    fflush(stdout);
  }

  // ------------------------------------------------------------ C18 second stage: the same simulation with the allocator behind a seam
  long long heap_runs = 0; int heap_violations = 0;
  if (cfg.prop == "C18" && !heap_is_seeded() && access("build/plain/theosim", X_OK) == 0 && !getenv("VERIF_NO_HEAP_STAGE")) {
    bool th = cfg.tier == "thorough";
    std::string ev2 = cfg.logs + "/C18.seeded_heap.json", out2 = cfg.logs + "/C18.seeded_heap.out";
    std::string cmd = std::string("timeout -s KILL ") + (th ? "900" : "150") + " build/plain/theosim check C18 " + cfg.tier + " --seed " + std::to_string(cfg.seed) + " --runs " + std::to_string(th ? 40000 : 1600) + " --budget " + std::to_string(th ? 240 : 15) +
                      " --workers " + std::to_string(cfg.workers) + " --replays " + cfg.replays + " --known " + cfg.known + " --logs " + cfg.logs + "/plain --evidence " + ev2 + " > " + out2 + " 2>" + cfg.logs + "/C18.seeded_heap.err";
    int rc = system(("mkdir -p " + cfg.logs + "/plain && " + cmd).c_str());
    int code = WIFEXITED(rc) ? WEXITSTATUS(rc) : 2;
    std::string o2; try { o2 = read_file(out2); } catch (...) {}
    size_t pos = 0;
    while (pos < o2.size()) {
      size_t e = o2.find('\n', pos); if (e == std::string::npos) e = o2.size();
      std::string line = o2.substr(pos, e - pos); pos = e + 1;
      if (line.rfind("VIOLATION ", 0) == 0) { printf("%s\n", line.c_str()); violations++; heap_violations++; }
      else if (line.rfind("KNOWN-FINDING:", 0) == 0) { printf("%s\n", line.c_str()); known_hits++; known_lines.push_back(line); }
    }
    fflush(stdout);
    try { Json e2 = Json::parse(read_file(ev2)); heap_runs = e2.at("coverage").num("evaluations"); } catch (...) {}
    if (code == 137 || code == 124) { fprintf(stderr, "[check C18] the seeded-allocator stage did not finish within its time limit; it is not counted\n"); heap_runs = 0; }
    else if (code == 2 || (code == 1 && heap_violations == 0)) { fprintf(stderr, "[check C18] the seeded-allocator stage ended with an infrastructure error (see %s)\n", (cfg.logs + "/C18.seeded_heap.err").c_str()); exit_code = 2; }
    fprintf(stderr, "[check C18] seeded-allocator stage (build without sanitizers, operator new behind a seeded seam): %lld runs, %d violations\n", heap_runs, heap_violations);
  }

  // ------------------------------------------------------------ C18 supplementary stage: free-running threads under TSan
  long long tsan_sets = 0, tsan_reports = 0;
  if (cfg.prop == "C18" && cfg.tier == "thorough" && access("build/tsan/theosim", X_OK) == 0) {
    const int P = 8; const long long per = getenv("VERIF_TSAN_SETS") ? atoll(getenv("VERIF_TSAN_SETS")) : 150;
    std::string cmd;
    for (int i = 0; i < P; i++)
      cmd += "timeout 600 build/tsan/theosim mtfree C18 " + std::to_string(cfg.seed) + " " + std::to_string(i * per) + " " + std::to_string((i + 1) * per) + " thorough > " + cfg.logs + "/C18.tsan." + std::to_string(i) + ".log 2>&1 & ";
    cmd += "wait";
    int rc = system(cmd.c_str()); (void)rc;
    for (int i = 0; i < P; i++) {
      std::string log;
      try { log = read_file(cfg.logs + "/C18.tsan." + std::to_string(i) + ".log"); } catch (...) { continue; }
      long long lastB = -1, lastE = -1; size_t pos = 0;
      while (pos < log.size()) {
        size_t e = log.find('\n', pos); if (e == std::string::npos) e = log.size();
        std::string line = log.substr(pos, e - pos); pos = e + 1;
        if (line.rfind("B ", 0) == 0) lastB = atoll(line.c_str() + 2);
        if (line.rfind("E ", 0) == 0) { lastE = atoll(line.c_str() + 2); tsan_sets++; int v = 0; long long r; if (sscanf(line.c_str(), "E %lld %d", &r, &v) == 2 && v) lastB = r, lastE = -2; }
      }
      bool report = log.find("WARNING: ThreadSanitizer") != std::string::npos;
      if ((report && lastB != lastE) || lastE == -2) {
        // confirm: the same task set twice more
        int again = 0;
        for (int t = 0; t < 2; t++) {
          std::string c2 = "timeout 300 build/tsan/theosim mtfree C18 " + std::to_string(cfg.seed) + " " + std::to_string(lastB) + " " + std::to_string(lastB + 1) + " thorough > " + cfg.logs + "/C18.tsan.confirm.log 2>&1";
          int r2 = system(c2.c_str());
          std::string l2; try { l2 = read_file(cfg.logs + "/C18.tsan.confirm.log"); } catch (...) {}
          if ((WIFEXITED(r2) && WEXITSTATUS(r2) == 66) || l2.find("WARNING: ThreadSanitizer") != std::string::npos || l2.find(" 1 ") != std::string::npos) again++;
        }
        if (again == 2 && tsan_reports >= 2) { tsan_reports++; continue; }
        if (again == 2) {
          tsan_reports++;
          Plan p = gen_plan("C18", cfg.seed, lastB, 0, "thorough");
          p.knobs["free_running"] = 1;
          Json rj = Json::obj();
          std::string head = log.substr(log.find("WARNING: ThreadSanitizer") == std::string::npos ? 0 : log.find("WARNING: ThreadSanitizer"), 1500);
          rj.set("property", "C18").set("oracle", "tsan_report_free_running").set("message", head).set("found_by", "supplementary ThreadSanitizer stage (uncontrolled schedule; runtime monitoring), task set of run " + std::to_string(lastB))
              .set("replay_cmd", "./check replay <this file>   (runs the task set on free-running threads in the TSan build)").set("plan", plan_to_json(p));
          std::string path = cfg.replays + "/C18-tsan-" + std::to_string(cfg.seed) + "-" + std::to_string(lastB) + ".json";
          write_file(path, rj.dump(1));
          violations++;
          printf("VIOLATION property=C18 replay=%s\n", path.c_str());
          fprintf(stderr, "  ThreadSanitizer report repeated twice for the task set of run %lld\n", lastB);
        } else fprintf(stderr, "[check] a ThreadSanitizer report for run %lld did not repeat (%d/2); not raised\n", lastB, again);
      }
    }
    fprintf(stderr, "[check C18] supplementary TSan stage: %lld task sets on free-running threads, %lld confirmed reports\n", tsan_sets, tsan_reports);
  }

  // ------------------------------------------------------------ evidence
  double wall = now_s() - t0;
  Json ev = Json::obj();
  ev.set("property_id", cfg.prop).set("tier", cfg.tier).set("seed", (long long)cfg.seed).set("level", tp.level);
  Json cov = Json::obj();
  cov.set("evaluations", evaluations).set("distinct_nontrivial", (long long)distinct_nt.size());
  static const std::map<std::string, std::string> RULES = {
      {"C01", "generated project (AST printed with a seeded layout, optional user macros, optional split over included files) compiled and run to its end through a debugger-interrupted session; compared with the source-level interpreter. Non-trivial: >= 3 instructions executed and the program end reached or a mutating debugger op applied."},
      {"C02", "valid generated project (or a corpus input) in the pristine store, 0-3 explicit faults (lost/empty/truncated file, byte flip, token drop/dup/swap/insert/replace, literal inflation, odd main name) applied before Theo::compile; thorough tier enumerates single-fault positions per workload. Non-trivial: at least one fault fired and the compile returned."},
      {"C03", "generated project biased to odd declarations (no parameters, OUT = parameter, redefinition, repeated parameter) compiled; load-time validator on the emitted program and operand decoding before every instruction of the session. Non-trivial: >= 3 instructions executed under the monitor."},
      {"C05", "seeded history of debugger API calls (step/exec/bp/bpcur/clear/stepmode/reset/inspect) on a compiled generated project; after every op the VM must be at the golden run's ip and state hash; small programs also get ALL histories up to length 2 (quick) / 3 (thorough) over an 11-letter alphabet. Non-trivial: >= 3 instructions and a mutating debugger op or the end reached."},
      {"C06", "same sessions as C05 plus per-location sweeps; every return value / stop position / reported location / enabled set checked against the debugger model. Non-trivial as C05."},
      {"C07", "canonical-layout, macro-free generated project; complete stepping runs and mixed sessions; every stop compared (line and every activation's variables) with the reference interpreter's event. Non-trivial: >= 3 instructions and >= 1 stop compared."},
      {"C08", "free-layout generated project (several statements per line, headers sharing lines, tokens spread over included files); table-inverse invariant at load and 'reported => enable-able' at every stop. Non-trivial as C05."},
      {"C11", "macro set (convergent / divergent / mutually recursive families with random priorities, or random sets) and a pass budget in {1..64, 1024}; Theo::apply_macros called directly, pass loop counted through the hook, one more pass on the output decides whether rewriting was still possible. Non-trivial: >= 1 pass with >= 1 definition."},
      {"C15", "include topology over 1-5 files (self-includes, cycles, diamonds, repeats, dangling includes, odd names) with a subset of files lost (thorough: every subset of <= 2 files per topology); Theo::scan and Theo::compile compared with the resolver model; then the provider loop. Non-trivial: some include error predicted or > 1 file."},
      {"C16", "generated project biased to calls / LOOP-only bodies, half of them with a call-graph fault (self-call, forward call, swapped definitions, renamed callee); depth invariant per instruction, EXEC certificate, halting bound, rejection of undefined callees. Non-trivial as C05, or an expected rejection observed."},
      {"C17", "sessions with reset() at arbitrary instants; a third of the workloads enumerate the reset instant over every instruction boundary (<= 300); after each reset the machine is compared with a freshly constructed one, and the model restarts from t = 0. Non-trivial as C05."},
      {"C18", "2-4 caller tasks (often near-copies of one project) on real threads released one at a time at hook points by a seeded schedule vector; each task's fingerprint alone-before = interleaved = alone-after = alone-in-opposite-order-in-another-process. Non-trivial: >= 2 context switches."},
      {"C19", "call-heavy generated project; sum of live frame sizes == data words and contiguity checked after every instruction (also inside execute() through the hook) and after every debugger op incl. reset. Non-trivial as C05."},
      {"C20", "boundary-valued generated project (constants near 2^31) run under UBSan with every word range-checked after every instruction and the run repeated; every 4th run inflates one literal of a valid project in the file store and expects a rejection. Non-trivial as C05 / the compile returned."},
  };
  auto rit = RULES.find(cfg.prop);
  cov.set("rule", std::string("one evaluation = one simulated run of a seeded, explicit, replayable plan against the real library. ") + (rit == RULES.end() ? "" : rit->second) +
                  " distinct_nontrivial counts distinct event-log hashes among the non-trivial runs.");
  Json sm = Json::arr();
  for (auto &s : samples) sm.push(s);
  if (samples.empty()) sm.push("(no sample recorded)");
  cov.set("samples", sm);
  cov.set("nontrivial_runs", nontrivial).set("distinct_histories", (long long)distinct_sigs.size()).set("distinct_states_estimate", hll.estimate())
      .set("distinct_states_measure", "HyperLogLog estimate over (ip, call depth, enabled-set size, stepping flag, next op) tuples in W1; (include graph / fault placement) in W2; (task, yield site, switch target) in W3")
      .set("sim_steps", sim_steps).set("runs_per_hour", (long long)(evaluations / std::max(t_explore, 0.001) * 3600)).set("explore_wall_s", t_explore).set("workers", W);
  Json fc = Json::obj(), pc = Json::obj(), oc = Json::obj(), wc = Json::obj();
  for (auto &kv : stats.c) {
    if (kv.first.rfind("fault_", 0) == 0) fc.set(kv.first.substr(6), kv.second);
    else if (kv.first.rfind("probe_", 0) == 0) pc.set(kv.first.substr(6), kv.second);
    else if (kv.first.rfind("op_", 0) == 0) oc.set(kv.first.substr(3), kv.second);
    else wc.set(kv.first, kv.second);
  }
  cov.set("fault_counts", fc).set("probe_counts", pc).set("op_counts", oc).set("counters", wc);
  Json real = Json::arr();
  for (const char *s : {"Compiler/src/lex.yy.c", "scan.cpp", "macro.cpp", "ParserGenerator/*", "parse.cpp", "gen.cpp", "compiler.cpp", "VM/src/vm.cpp", "program.cpp", "instr.cpp"}) real.push(s);
  Json stub = Json::arr();
  for (const char *s : {"file store (std::map handed to Theo::compile - the library's own interface)", "IDE / debugger client (scripted op list)", "caller-thread scheduler (W3)", "CLI/cli.cpp is not run"}) stub.push(s);
  if (cfg.prop == "C18" && !heap_is_seeded()) cov.set("seeded_heap_stage", "the same W3 simulation in a build without sanitizers in which operator new is served by an arena whose placement decisions follow a PRNG seeded per task and phase (alone / interleaved / again / other order): " + std::to_string(heap_runs) + " runs, " + std::to_string(heap_violations) + " violations");
  if (cfg.prop == "C18") cov.set("tsan_stage", cfg.tier == "thorough" ? "supplementary runtime monitoring outside the deterministic core: " + std::to_string(tsan_sets) + " task sets on free-running threads in the -fsanitize=thread build, " + std::to_string(tsan_reports) + " confirmed reports" : std::string("not run in the quick tier"));
  cov.set("real_components", real).set("stub_components", stub).set("foreign_crashes", foreign_crashes).set("known_findings", known_hits).set("exhaustive", false);
  ev.set("coverage", cov);
  Json as = Json::arr();
  as.push("sampling, not enumeration: a clean batch is evidence over the sampled runs only");
  as.push("reference semantics of DESIGN.md §5.2; generated projects bounded in size (§5.1)");
  as.push("sanitizer build (ASan + selected UBSan, _GLIBCXX_ASSERTIONS) of the current working tree with -DTHEO_VERIF");
  ev.set("assumptions", as).set("wall_s", wall).set("violations", (long long)violations);
  write_file(cfg.evidence, ev.dump(1));

  for (auto &kv : pc.o) if (kv.second.n == 0) fprintf(stderr, "[check] probe %s stayed at zero\n", kv.first.c_str());
  if (infra_errors) { fprintf(stderr, "[check] %d infrastructure errors\n", infra_errors); exit_code = 2; }
  if (evaluations == 0) { fprintf(stderr, "[check] nothing was evaluated\n"); exit_code = 2; }
  if (violations) return 1;
  if (exit_code) return exit_code;
  fprintf(stderr, "[check %s %s] held on %lld runs (%.1fs)\n", cfg.prop.c_str(), cfg.tier.c_str(), evaluations, wall);
  return 0;
}

int driver_main(int argc, char **argv) {
  std::string cmd = argv[1];
  if (cmd == "replay" && argc >= 3) {
    bool quiet = false;
    for (int i = 3; i < argc; i++) if (std::string(argv[i]) == "--quiet") quiet = true;
    return replay_main(argv[2], quiet);
  }
  if (cmd == "check" && argc >= 3) {
    Config cfg;
    cfg.prop = argv[2];
    if (argc >= 4 && argv[3][0] != '-') cfg.tier = argv[3];
    if (const char *e = getenv("VERIF_TIER")) if (*e) cfg.tier = e;
    if (const char *e = getenv("VERIF_SEED")) if (*e) cfg.seed = strtoull(e, nullptr, 10);
    if (const char *e = getenv("VERIF_WORKERS")) if (*e) cfg.workers = atoi(e);
    for (int i = 3; i + 1 < argc; i++) {
      std::string a = argv[i];
      if (a == "--seed") cfg.seed = strtoull(argv[i + 1], nullptr, 10);
      if (a == "--runs") cfg.runs = atoll(argv[i + 1]);
      if (a == "--budget") cfg.budget_s = atof(argv[i + 1]);
      if (a == "--workers") cfg.workers = atoi(argv[i + 1]);
      if (a == "--evidence") cfg.evidence = argv[i + 1];
      if (a == "--replays") cfg.replays = argv[i + 1];
      if (a == "--known") cfg.known = argv[i + 1];
      if (a == "--logs") cfg.logs = argv[i + 1];
      if (a == "--dump-hashes") cfg.dump_hashes = argv[i + 1];
    }
    return check_main(cfg);
  }
  if (cmd == "mtfree" && argc >= 6) {
    // supplementary stage of C18 (runtime monitoring, not simulation): the same task sets on free-running
    // threads; meant to be run from the ThreadSanitizer build, which aborts with exit code 66 on a report
    std::string prop = argv[2]; uint64_t seed = strtoull(argv[3], 0, 10); long long a = atoll(argv[4]), b = atoll(argv[5]);
    std::string tier = argc > 6 ? argv[6] : "thorough";
    int slot = 0; g_phase_slot = &slot;
    for (long long r = a; r < b; r++) {
      Plan p = gen_plan(prop, seed, r, 0, tier);
      p.knobs["free_running"] = 1;
      printf("B %lld\n", r); fflush(stdout);
      Outcome o = exec_plan(p, false);
      printf("E %lld %d %s\n", r, o.violated, o.oracle.c_str()); fflush(stdout);
    }
    return 0;
  }
  if (cmd == "hashes" && argc >= 6) {
    // determinism self-test: print "run sub hash" for a range of runs, in-process, no workers
    std::string prop = argv[2]; uint64_t seed = strtoull(argv[3], 0, 10); long long a = atoll(argv[4]), b = atoll(argv[5]);
    std::string tier = argc > 6 ? argv[6] : "quick";
    int slot = 0; g_phase_slot = &slot;
    for (long long r = a; r < b; r++) {
      for (long long sub = 0;; sub++) {
        Plan p = gen_plan(prop, seed, r, sub, tier);
        Outcome o = exec_plan(p, false);
        printf("%lld %lld %s %d %s\n", r, sub, hex64(o.log_hash).c_str(), o.violated, o.oracle.c_str());
        if (!o.more_subs || sub > 400) break;
      }
    }
    return 0;
  }
  fprintf(stderr, "usage: theosim check <prop> [quick|thorough] [--seed N --runs N --budget S --workers W] | replay <file> [--quiet] | gen|run1 <prop> <seed> <run> [sub] [tier] | hashes <prop> <seed> <from> <to>\n");
  return 2;
}

}  // namespace sim
