#include "project.hpp"

#include <algorithm>
#include <functional>

namespace sim {

// =====================================================================================================
// AST helpers
// =====================================================================================================
static void number_block(std::vector<Stmt> &b, int &next) {
  for (auto &s : b) {
    s.id = next++;
    number_block(s.body, next);
    number_block(s.body2, next);
  }
}
void number_statements(Ast &a) {
  int next = 1;
  for (auto &r : a.defs) number_block(r.body, next);
  number_block(a.main, next);
}
int count_statements(const std::vector<Stmt> &b) {
  int n = 0;
  for (auto &s : b) n += 1 + count_statements(s.body) + count_statements(s.body2);
  return n;
}
static int count_val(const Val &v) { int n = 1; for (auto &a : v.args) n += count_val(a); return n; }
int count_nodes(const Stmt &s) {
  int n = 1 + count_val(s.val);
  for (auto &c : s.body) n += count_nodes(c);
  for (auto &c : s.body2) n += count_nodes(c);
  return n;
}
static bool block_uses_wg(const std::vector<Stmt> &b) {
  for (auto &s : b) {
    if (s.k == Stmt::WHILE || s.k == Stmt::GOTO || s.k == Stmt::IF) return true;
    if (block_uses_wg(s.body) || block_uses_wg(s.body2)) return true;
  }
  return false;
}
bool uses_while_goto(const Ast &a) {
  for (auto &r : a.defs) if (block_uses_wg(r.body)) return true;
  return block_uses_wg(a.main);
}

// =====================================================================================================
// Generator
// =====================================================================================================
namespace {

const char *VAR_POOL[] = {"x0", "x1", "x2", "y", "z", "n", "acc", "k", "m", "t1", "_r"};
const char *FN_POOL[] = {"f", "g", "h", "add", "mul", "p", "q"};

struct GenCtx {
  Rng &rng;
  const GenParams &gp;
  Ast &ast;
  int routine = -1;                // index of the routine being generated, -1 = main (may call all)
  std::vector<std::string> vars;   // variable pool of the current routine
  int nlabels = 0;                 // planned label names l0..l{nlabels-1}
  std::vector<int> label_used;
  int budget = 0;                  // statements left for this routine
  bool in_ite = false;
  int jl_serial = 0;
  int label_rot = 0;
  std::string last_var;
  int in_slot = 0;   // inside text that a user macro must match as a slot (<V>, <P>, <ARGS>)
};

std::string pick_var(GenCtx &c) {
  if (c.gp.locality > 0 && !c.last_var.empty() && (int)c.rng.below(100) < c.gp.locality) return c.last_var;
  c.last_var = c.vars[c.rng.below(c.vars.size())];
  return c.last_var;
}

long long pick_const(GenCtx &c) {
  if (c.gp.boundary_values && c.rng.chance(1, 2)) {
    static const long long B[] = {2147483646LL, 2147483645LL, 1073741823LL, 1073741824LL, 2147483000LL, 65536, 46341, 2147483646LL};
    return B[c.rng.below(8)];
  }
  if (c.rng.chance(1, 12)) return c.rng.range(0, 40);
  return c.rng.range(0, c.gp.max_const);
}

// routines that may be called from the current position: completely defined earlier
std::vector<int> callable(GenCtx &c) {
  std::vector<int> r;
  int lim = c.routine < 0 ? (int)c.ast.defs.size() : c.routine;
  for (int i = 0; i < lim; i++) {
    // a later definition with the same name before `lim` shadows an earlier one: both are fine to name,
    // the reference resolves to the latest complete definition
    r.push_back(i);
  }
  return r;
}

// MF_ARITH: sum := un ('+' un)* ; un := '@' un | prod ; prod := atom ('*' atom)* - printed without parentheses; the macro
// priorities (* 20, @ 15, + 10) rebuild exactly this tree.  An INT may not directly follow "ID +": the built-in x + c sugar
// (priority 1000000) would grab that pair first.
Val gen_atom(GenCtx &c, bool int_allowed) {
  Val v;
  if (int_allowed && c.rng.chance(3, 10)) { v.k = Val::CONST; v.c = c.rng.range(0, 3); }
  else { v.k = Val::VAR; v.var = pick_var(c); }
  return v;
}
bool ends_in_id(const Val &v) {
  if (v.k == Val::VAR) return true;
  if (v.k == Val::CONST) return false;
  return ends_in_id(v.args.back());
}
Val gen_prod(GenCtx &c, bool first_int_allowed) {
  Val l = gen_atom(c, first_int_allowed);
  int n = c.rng.chance(2, 5) ? (c.rng.chance(1, 4) ? 2 : 1) : 0;
  for (int i = 0; i < n; i++) { Val m; m.k = Val::BMUL; m.args.push_back(l); m.args.push_back(gen_atom(c, true)); l = m; }
  return l;
}
// first_int_allowed == false: the previous operand ends in an identifier and a '+' follows it, so this operand must start with
// an identifier: neither a literal nor '@' (whose expansion starts with the literal 2) may come next
Val gen_un(GenCtx &c, bool first_int_allowed, int depth) {
  if (first_int_allowed && depth < 2 && c.rng.chance(1, 4)) { Val d; d.k = Val::DBL; d.args.push_back(gen_un(c, true, depth + 1)); return d; }
  return gen_prod(c, first_int_allowed);
}
Val gen_expr(GenCtx &c) {
  Val l = gen_un(c, true, 0);
  int n = (int)c.rng.range(0, 2);
  if (n == 0 && l.k != Val::BMUL && l.k != Val::DBL) n = 1;
  for (int i = 0; i < n; i++) { Val a; a.k = Val::BADD; a.args.push_back(l); a.args.push_back(gen_un(c, !ends_in_id(l), 0)); l = a; }
  return l;
}

Val gen_val(GenCtx &c, int depth) {
  Val v;
  if ((c.gp.macros & MF_ARITH) && depth == 0 && !c.in_slot && c.routine != 0 && c.routine != 1 && c.rng.chance(1, 4)) return gen_expr(c);
  int w = (int)c.rng.below(100);
  auto cs = callable(c);
  int call_w = cs.empty() ? 0 : (c.gp.call_heavy ? 45 : 22);
  if (depth >= 2) call_w = 0;
  if (w < call_w) {
    int idx = cs[c.rng.below(cs.size())];
    const Routine &r = c.ast.defs[idx];
    v.k = Val::CALL;
    v.callee = r.name;
    // arity of the definition the name resolves to at this point = latest earlier one of that name
    int lim = c.routine < 0 ? (int)c.ast.defs.size() : c.routine;
    const Routine *res = nullptr;
    for (int i = 0; i < lim; i++) if (c.ast.defs[i].name == r.name) res = &c.ast.defs[i];
    int n = res->has_in ? (int)res->params.size() : 0;
    // the macro detector's grammar has no empty argument list: a call without arguments cannot stand inside a
    // macro slot (observation, see DESIGN.md); keep such calls out of slots
    if (n == 0 && c.in_slot) { v.k = Val::VAR; v.callee.clear(); v.var = pick_var(c); return v; }
    if ((c.gp.macros & MF_CALL) && n >= 1 && c.rng.chance(1, 2)) v.sugar = 1;
    if (v.sugar) c.in_slot++;
    for (int i = 0; i < n; i++) v.args.push_back(gen_val(c, depth + 1));
    if (v.sugar) c.in_slot--;
    return v;
  }
  if (w < call_w + 28) { v.k = Val::CONST; v.c = pick_const(c); return v; }
  if (w < call_w + 28 + 18) { v.k = Val::VAR; v.var = pick_var(c); return v; }
  v.k = c.rng.chance(3, 5) ? Val::ADD : Val::SUB;
  v.var = pick_var(c);
  v.c = pick_const(c);
  return v;
}

std::string label_name(GenCtx &c, int i) {
  if (c.gp.label_names == 1) {
    static const char *POOL[] = {"a", "a1", "a11", "a2", "a12", "a10", "a0", "a01", "a21", "a112"};
    return POOL[(size_t)(i + c.label_rot) % 10];
  }
  return "l" + std::to_string(i);
}

std::string plan_label(GenCtx &c) {
  if (c.nlabels == 0 || (c.nlabels < 4 && c.rng.chance(1, 3))) {
    c.label_used.push_back(0);
    c.nlabels++;
  }
  int i = (int)c.rng.below(c.nlabels);
  c.label_used[i]++;
  return label_name(c, i);
}

std::vector<Stmt> gen_block(GenCtx &c, int depth, int maxn);

Stmt gen_stmt(GenCtx &c, int depth) {
  Stmt s;
  const GenParams &gp = c.gp;
  int w = (int)c.rng.below(100);
  bool can_nest = depth < gp.max_depth && c.budget > 1;
  bool jumps = gp.allow_jumps && !gp.loop_only_bias;
  bool wh = gp.allow_while && !gp.loop_only_bias;
  if (can_nest && w < 16) {
    s.k = Stmt::LOOP; s.var = pick_var(c);
    s.body = gen_block(c, depth + 1, 3);
    return s;
  }
  if (can_nest && wh && w < 24) {
    s.k = Stmt::WHILE; s.var = pick_var(c);
    s.body = gen_block(c, depth + 1, 3);
    if (c.rng.chance(17, 20)) {  // terminate: decrement the tested variable last
      Stmt d; d.k = Stmt::ASSIGN; d.var = s.var; d.val.k = Val::SUB; d.val.var = s.var; d.val.c = c.rng.range(1, 2);
      s.body.push_back(d);
    }
    return s;
  }
  if (jumps && w < 32) { s.k = Stmt::IF; s.var = pick_var(c); s.c = c.rng.chance(1, 2) ? 0 : pick_const(c); s.target = plan_label(c); return s; }
  if (jumps && w < 36) { s.k = Stmt::GOTO; s.target = plan_label(c); return s; }
  if (gp.allow_stop && w < 37 && c.rng.chance(1, 3)) { s.k = Stmt::STOP; return s; }
  if ((gp.macros & MF_NOP) && w < 40) { s.k = Stmt::NOP; return s; }
  if ((gp.macros & MF_SWAP) && w < 45) {
    s.k = Stmt::SWAP; s.var = pick_var(c); s.var2 = pick_var(c);
    return s;
  }
  if ((gp.macros & MF_TWICE) && w < 48 && w >= 45) { s.k = Stmt::TWICE; s.var = pick_var(c); s.c = c.rng.range(1, 3); return s; }
  if ((gp.macros & MF_ITE) && can_nest && w < 52) {
    s.k = Stmt::ITE;
    bool save = c.in_ite; c.in_ite = true; c.in_slot++;
    s.val = gen_val(c, 1);
    s.body = gen_block(c, depth + 1, 2);
    s.body2 = gen_block(c, depth + 1, 2);
    c.in_ite = save; c.in_slot--;
    return s;
  }
  s.k = Stmt::ASSIGN; s.var = pick_var(c); s.val = gen_val(c, 0);
  return s;
}

std::vector<Stmt> gen_block(GenCtx &c, int depth, int maxn) {
  std::vector<Stmt> b;
  int n = (int)c.rng.range(1, std::max(1, maxn));
  for (int i = 0; i < n && (c.budget > 0 || b.empty()); i++) {
    c.budget--;
    b.push_back(gen_stmt(c, depth));
    if (b.back().k == Stmt::IF && c.gp.locality > 0 && c.rng.chance(1, 2)) {
      // a chain of tests on one variable, possibly with a call in between
      std::string v = b.back().var;
      if (c.rng.chance(1, 2)) { Stmt a; a.k = Stmt::ASSIGN; a.var = c.vars[c.rng.below(c.vars.size())]; a.val = gen_val(c, 0); b.push_back(a); }
      Stmt j; j.k = Stmt::IF; j.var = v; j.c = pick_const(c); j.target = plan_label(c);
      b.push_back(j);
    }
  }
  return b;
}

// collect pointers to all statements of a routine in program order, with the loops that enclose each
struct Placed { Stmt *s; std::vector<const Stmt *> loops; };
void collect(std::vector<Stmt> &b, std::vector<Placed> &out, std::vector<const Stmt *> &path) {
  for (auto &s : b) {
    out.push_back({&s, path});
    bool loop = s.k == Stmt::LOOP || s.k == Stmt::WHILE;
    if (loop) path.push_back(&s);
    collect(s.body, out, path);
    collect(s.body2, out, path);
    if (loop) path.pop_back();
  }
}

void place_labels(GenCtx &c, std::vector<Stmt> &body) {
  std::vector<Placed> all;
  std::vector<const Stmt *> path;
  collect(body, all, path);
  for (int l = 0; l < c.nlabels; l++) {
    std::string name = label_name(c, l);
    // first statement that jumps to it, to bias unconditional jumps forward
    int first_ref = -1; bool uncond = false;
    for (size_t i = 0; i < all.size(); i++)
      if ((all[i].s->k == Stmt::GOTO || all[i].s->k == Stmt::IF) && all[i].s->target == name) { first_ref = (int)i; uncond = all[i].s->k == Stmt::GOTO; break; }
    size_t pos;
    // a third of the labels go into a loop body that does not enclose the jump (jump into a loop)
    std::vector<size_t> into;
    if (first_ref >= 0)
      for (size_t i = 0; i < all.size(); i++)
        for (auto *lp : all[i].loops)
          if (std::find(all[(size_t)first_ref].loops.begin(), all[(size_t)first_ref].loops.end(), lp) == all[(size_t)first_ref].loops.end()) { into.push_back(i); break; }
    // a label on an unconditional jump (a jump to a jump), most interesting when reached by a backward jump
    std::vector<size_t> on_goto;
    if (c.gp.label_on_goto) for (size_t i = 0; i < all.size(); i++) if (all[i].s->k == Stmt::GOTO && all[i].s->target != name) on_goto.push_back(i);
    if (!on_goto.empty() && c.rng.chance(1, 4)) pos = on_goto[c.rng.below(on_goto.size())];
    else if (!into.empty() && c.rng.chance(1, 3)) pos = into[c.rng.below(into.size())];
    else if (first_ref >= 0 && first_ref + 1 < (int)all.size() && c.rng.chance(uncond ? 17 : 10, 20))
      pos = (size_t)c.rng.range(first_ref + 1, (long)all.size() - 1);
    else
      pos = c.rng.below(all.size());
    all[pos].s->labels.push_back(name);
  }
  // the macro detector grammar allows a single label in front of a statement; keep that inside ITE branches
  std::function<void(std::vector<Stmt> &, bool)> fix = [&](std::vector<Stmt> &b, bool inside) {
    for (size_t i = 0; i < b.size(); i++) {
      // surplus labels move onto fresh no-op assignments in front
      while (inside && b[i].labels.size() > 1) {
        Stmt d; d.k = Stmt::ASSIGN; d.var = "_r"; d.val.k = Val::VAR; d.val.var = "_r";
        d.labels.push_back(b[i].labels.back());
        b[i].labels.pop_back();
        b.insert(b.begin() + i, d);
        i++;
      }
      bool in2 = inside || b[i].k == Stmt::ITE;
      fix(b[i].body, in2);
      fix(b[i].body2, in2);
    }
  };
  fix(body, false);
}

std::vector<Stmt> gen_routine_body(GenCtx &c, int maxn) {
  c.nlabels = 0; c.label_used.clear(); c.label_rot = c.gp.label_names ? (int)c.rng.below(10) : 0;
  c.budget = c.gp.max_stmts;
  std::vector<Stmt> body = gen_block(c, 0, maxn);
  if (c.gp.jump_into_loop > 0 && (int)c.rng.below(100) < c.gp.jump_into_loop) {
    // jump from outside into the body of a loop nested 1-2 deep, after code that leaves non-zero scratch values behind
    std::string lab = "j" + std::to_string(c.routine + 1) + "_" + std::to_string(c.jl_serial++);
    std::vector<Stmt> pat;
    std::string v = pick_var(c);
    long long k = c.rng.range(1, 9);
    { Stmt a; a.k = Stmt::ASSIGN; a.var = v; a.val.k = Val::CONST; a.val.c = k; pat.push_back(a); }
    if (c.rng.chance(1, 2)) { Stmt a; a.k = Stmt::ASSIGN; a.var = pick_var(c); a.val.k = c.rng.chance(1, 2) ? Val::ADD : Val::SUB; a.val.var = v; a.val.c = c.rng.range(1, 5); pat.push_back(a); }
    if (c.rng.chance(2, 3)) { Stmt j; j.k = Stmt::IF; j.var = v; j.c = c.rng.chance(4, 5) ? k : k + 1; j.target = lab; pat.push_back(j); }
    else { Stmt j; j.k = Stmt::GOTO; j.target = lab; pat.push_back(j); }
    Stmt inner_target; inner_target.k = Stmt::ASSIGN; inner_target.var = pick_var(c); inner_target.val.k = Val::ADD; inner_target.val.var = inner_target.var; inner_target.val.c = 1;
    inner_target.labels.push_back(lab);
    Stmt after; after.k = Stmt::ASSIGN; after.var = pick_var(c); after.val.k = Val::ADD; after.val.var = after.var; after.val.c = c.rng.range(1, 3);
    Stmt inner; inner.k = c.rng.chance(4, 5) ? Stmt::LOOP : Stmt::WHILE; inner.var = pick_var(c);
    if (c.rng.chance(1, 2)) inner.body.push_back(after);
    inner.body.push_back(inner_target);
    if (c.rng.chance(1, 2)) inner.body.push_back(after);
    if (inner.k == Stmt::WHILE) { Stmt d; d.k = Stmt::ASSIGN; d.var = inner.var; d.val.k = Val::SUB; d.val.var = inner.var; d.val.c = 1; inner.body.push_back(d); }
    if (c.rng.chance(3, 5)) {
      Stmt outer; outer.k = Stmt::LOOP; outer.var = pick_var(c);
      if (c.rng.chance(1, 2)) outer.body.push_back(after);
      outer.body.push_back(inner);
      if (c.rng.chance(1, 2)) outer.body.push_back(after);
      pat.push_back(outer);
    } else pat.push_back(inner);
    size_t at = c.rng.below(body.size() + 1);
    body.insert(body.begin() + at, pat.begin(), pat.end());
  }
  if (c.gp.stop_in_callee && c.routine >= 0 && c.rng.chance(1, 2)) {
    Stmt st; st.k = Stmt::STOP;
    body.insert(body.begin() + c.rng.below(body.size() + 1), st);
  }
  if (c.gp.init_vars) {
    // main initialises most of its variables; a routine only some locals (never its parameters)
    std::vector<Stmt> init;
    for (size_t i = 0; i < c.vars.size(); i++) {
      if (c.routine >= 0 && i < c.ast.defs[(size_t)c.routine].params.size()) continue;
      if (!c.rng.chance(c.routine < 0 ? 3 : 1, 4)) continue;
      bool dup = false;
      for (size_t k = 0; k < i; k++) if (c.vars[k] == c.vars[i]) dup = true;
      if (dup) continue;
      Stmt a; a.k = Stmt::ASSIGN; a.var = c.vars[i]; a.val.k = Val::CONST; a.val.c = c.gp.boundary_values && c.rng.chance(1, 3) ? pick_const(c) : c.rng.range(1, 4);
      init.push_back(a);
    }
    body.insert(body.begin(), init.begin(), init.end());
  }
  if (c.nlabels) place_labels(c, body);
  if (c.gp.loop_back_head > 0 && c.gp.allow_jumps && !c.gp.loop_only_bias && (int)c.rng.below(100) < c.gp.loop_back_head) {
    // h: k := k + 1 ; <0-2 statements> ; IF k = K THEN GOTO e ; GOTO h ; e: k := k + 0   - at the very start of the body
    std::string tag = std::to_string(c.routine + 1) + "_" + std::to_string(c.jl_serial++);
    std::string k = "k" + tag, h = "h" + tag, e = "e" + tag;
    std::vector<Stmt> pat;
    { Stmt a; a.k = Stmt::ASSIGN; a.var = k; a.val.k = Val::ADD; a.val.var = k; a.val.c = 1; a.labels.push_back(h); pat.push_back(a); }
    int mid = (int)c.rng.below(3);
    for (int i = 0; i < mid; i++) { Stmt a; a.k = Stmt::ASSIGN; a.var = pick_var(c); a.val.k = c.rng.chance(1, 2) ? Val::ADD : Val::SUB; a.val.var = pick_var(c); a.val.c = c.rng.range(0, 3); pat.push_back(a); }
    { Stmt j; j.k = Stmt::IF; j.var = k; j.c = c.rng.range(2, 4); j.target = e; pat.push_back(j); }
    { Stmt j; j.k = Stmt::GOTO; j.target = h; pat.push_back(j); }
    { Stmt a; a.k = Stmt::ASSIGN; a.var = k; a.val.k = Val::ADD; a.val.var = k; a.val.c = 0; a.labels.push_back(e); pat.push_back(a); }
    body.insert(body.begin(), pat.begin(), pat.end());
  }
  return body;
}

}  // namespace

Ast generate_ast(Rng &rng, const GenParams &gp) {
  Ast a;
  a.macros = gp.macros;
  GenCtx c{rng, gp, a};
  if (gp.macros & MF_ARITH) {
    auto asg = [](const std::string &v, Val val) { Stmt s; s.k = Stmt::ASSIGN; s.var = v; s.val = val; return s; };
    Routine add; add.name = "add"; add.params = {"a", "b"}; add.has_out = true; add.out = "a";
    { Stmt l; l.k = Stmt::LOOP; l.var = "b"; Val inc; inc.k = Val::ADD; inc.var = "a"; inc.c = 1; l.body.push_back(asg("a", inc)); add.body.push_back(l); }
    Routine mul; mul.name = "mul"; mul.params = {"a", "b"};
    { Stmt l; l.k = Stmt::LOOP; l.var = "b"; Val call; call.k = Val::CALL; call.callee = "add"; Val x; x.k = Val::VAR; x.var = "x0"; Val y; y.k = Val::VAR; y.var = "a"; call.args = {x, y}; l.body.push_back(asg("x0", call)); mul.body.push_back(l); }
    a.defs.push_back(add); a.defs.push_back(mul);
  }
  const int arith_defs = (int)a.defs.size();
  int ndefs = arith_defs + (int)rng.range(std::min(gp.min_defs, gp.max_defs), gp.max_defs);
  if (gp.call_heavy && ndefs == 0) ndefs = 1;
  for (int i = arith_defs; i < ndefs; i++) {
    Routine r;
    // name: mostly fresh, sometimes a redefinition of an earlier name
    if (i > arith_defs && rng.chance(1, 8)) r.name = a.defs[arith_defs + rng.below(a.defs.size() - arith_defs)].name;
    else {
      for (int tries = 0; tries < 20; tries++) {
        r.name = FN_POOL[rng.below(7)];
        if (arith_defs && (r.name == "add" || r.name == "mul")) r.name = r.name + "x";
        bool clash = false;
        for (auto &d : a.defs) if (d.name == r.name) clash = true;
        if (!clash) break;
        r.name += std::to_string(i);
      }
    }
    int np = (int)rng.range(0, 3);
    if (np == 0 && gp.allow_noparam) r.has_in = false;
    else {
      if (np == 0) np = 1;
      std::vector<std::string> pool(VAR_POOL, VAR_POOL + 11);
      for (int k = 0; k < np; k++) {
        size_t j = rng.below(pool.size());
        r.params.push_back(pool[j]);
        pool.erase(pool.begin() + j);
      }
      if (gp.allow_dup_params && np >= 2 && rng.chance(1, 3)) { r.params[np - 1] = r.params[0]; a.dup_params = true; }
      if (rng.chance(1, 2)) {
        r.has_out = true;
        r.out = rng.chance(1, 3) ? r.params[rng.below(r.params.size())] : std::string(VAR_POOL[rng.below(11)]);
      }
    }
    c.routine = i;
    c.vars.clear(); c.last_var.clear();
    for (auto &p : r.params) c.vars.push_back(p);
    if (r.has_out) c.vars.push_back(r.out); else c.vars.push_back("x0");
    int extra = (int)rng.range(0, 2);
    for (int k = 0; k < extra; k++) c.vars.push_back(VAR_POOL[rng.below(11)]);
    a.defs.push_back(r);  // so that callable() sees earlier ones only (index < i)
    a.defs.back().body = gen_routine_body(c, 4);
  }
  // shared-file duplicate: repeat one definition verbatim later on (printed as the same file included twice)
  if ((int)a.defs.size() > arith_defs && rng.chance(1, 10)) {
    size_t i = arith_defs + rng.below(a.defs.size() - arith_defs);
    // only safe when the body calls nothing that could resolve differently the second time: keep it simple,
    // resolution is by "latest complete definition", which the reference implements as well
    a.defs[i].share = 1;
    Routine copy = a.defs[i];
    a.defs.insert(a.defs.begin() + i + 1 + rng.below(a.defs.size() - i), copy);
  }
  c.routine = -1;
  c.vars.clear(); c.last_var.clear();
  int nv = (int)rng.range(2, 5);
  for (int k = 0; k < nv; k++) c.vars.push_back(VAR_POOL[rng.below(11)]);
  a.main = gen_routine_body(c, 6);
  if (a.main.size() >= 3 && rng.chance(1, 6)) {
    // a statement that lives in its own file, included twice (not directly after each other, and never as the last statement)
    size_t i = rng.below(a.main.size() - 2);
    // prefer a statement that is not idempotent (x := x + 1 rather than x := 4): executing it once or twice must differ
    for (size_t k = 0; k + 2 < a.main.size(); k++) {
      size_t c = (i + k) % (a.main.size() - 2);
      if (a.main[c].k == Stmt::ASSIGN && a.main[c].labels.empty() && (a.main[c].val.k == Val::ADD || a.main[c].val.k == Val::SUB) && a.main[c].val.var == a.main[c].var && a.main[c].val.c > 0) { i = c; break; }
    }
    if (a.main[i].k == Stmt::ASSIGN && a.main[i].labels.empty()) {
      Stmt copy = a.main[i];
      a.main[i].share = copy.share = 100;
      size_t j = i + 2 + rng.below(a.main.size() - i - 2);
      a.main.insert(a.main.begin() + j, copy);
    }
  }
  if (gp.tail_after_stop > 0 && gp.allow_jumps && !gp.loop_only_bias && (int)rng.below(100) < gp.tail_after_stop) {
    std::string v = c.vars[rng.below(c.vars.size())];
    Stmt j; j.k = rng.chance(1, 2) ? Stmt::GOTO : Stmt::IF; j.var = v; j.c = rng.chance(1, 2) ? 0 : 1; j.target = "t_end";
    a.main.insert(a.main.begin() + rng.below(a.main.size() + 1), j);
    Stmt st; st.k = Stmt::STOP; a.main.push_back(st);
    Stmt t; t.k = Stmt::ASSIGN; t.var = v; t.val.k = Val::VAR; t.val.var = v; t.labels.push_back("t_end");
    if (rng.chance(1, 3)) { t.val.k = Val::ADD; t.val.c = rng.range(0, 2); }
    a.main.push_back(t);
  }
  number_statements(a);
  return a;
}

// =====================================================================================================
// Printer
// =====================================================================================================
namespace {

struct KW { const char *sp[6]; int n; };
const std::map<std::string, KW> KWS = {
    {"PROGRAM", {{"PROGRAM", "Program", "program", "PROG", "Prog", "prog"}, 6}},
    {"IN", {{"IN", "In", "in"}, 3}},       {"OUT", {{"OUT", "Out", "out"}, 3}},
    {"DO", {{"DO", "Do", "do"}, 3}},       {"END", {{"END", "End", "end"}, 3}},
    {"LOOP", {{"LOOP", "Loop", "loop"}, 3}}, {"WHILE", {{"WHILE", "While", "while"}, 3}},
    {"GOTO", {{"GOTO", "Goto", "goto"}, 3}}, {"IF", {{"IF", "If", "if"}, 3}},
    {"THEN", {{"THEN", "Then", "then"}, 3}}, {"STOP", {{"STOP", "Stop", "stop"}, 3}},
    {"RUN", {{"RUN", "Run", "run"}, 3}},   {"WITH", {{"WITH", "With", "with"}, 3}},
    {"DEFINE", {{"DEFINE", "Define", "define", "Def", "def"}, 5}},
    {"AS", {{"AS", "As", "as"}, 3}},
    {"PRIORITY", {{"PRIORITY", "Priority", "priority", "PRIO", "Prio", "prio"}, 6}},
    {"ENDDEFINE", {{"END DEFINE", "End Define", "end define", "ENDDEF", "Enddef", "enddef"}, 6}},
    {"INCLUDE", {{"INCLUDE", "Include", "include"}, 3}},
};

struct Printer {
  Project &p;
  Rng rng;
  std::vector<PTok> out;
  bool next_brk = true;
  int cur_sid = -1, cur_role = 0, cur_rid = -1;

  explicit Printer(Project &p) : p(p), rng(p.layout.seed ^ 0x51ed270b0bULL) {}

  std::string kw(const std::string &k) {
    const KW &e = KWS.at(k);
    switch (p.layout.spelling) {
      case 0: return e.sp[0];
      case 1: return e.sp[1];
      case 2: return e.sp[2];
      default: return e.sp[rng.below(e.n)];
    }
  }
  void tok(const std::string &text, int kind = 0) {
    PTok t; t.text = text; t.brk = next_brk; next_brk = false; t.kind = kind;
    t.sid = cur_sid; t.role = cur_role; t.rid = cur_rid;
    cur_role = 0;
    out.push_back(t);
  }
  void K(const std::string &k) { tok(kw(k)); }
  void nl() { next_brk = true; }

  void val(const Val &v) {
    switch (v.k) {
      case Val::VAR: tok(v.var, 2); break;
      case Val::CONST: tok(std::to_string(v.c), 1); break;
      case Val::ADD: tok(v.var, 2); tok("+"); tok(std::to_string(v.c), 1); break;
      case Val::SUB: tok(v.var, 2); tok("-"); tok(std::to_string(v.c), 1); break;
      case Val::BADD: val(v.args[0]); tok("+"); val(v.args[1]); break;
      case Val::BMUL: val(v.args[0]); tok("*"); val(v.args[1]); break;
      case Val::DBL: tok("@"); val(v.args[0]); break;
      case Val::CALL:
        if (v.sugar == 1 && !v.args.empty()) {
          tok(v.callee, 2); tok("(");
          for (size_t i = 0; i < v.args.size(); i++) { if (i) tok(","); val(v.args[i]); }
          tok(")");
        } else {
          K("RUN"); tok(v.callee, 2); K("WITH");
          for (size_t i = 0; i < v.args.size(); i++) { if (i) tok(","); val(v.args[i]); }
          K("END");
        }
        break;
    }
  }
  std::map<int, std::vector<std::pair<size_t, size_t>>> shared_stmts;   // share id -> token ranges (statement incl. its ';')
  void block(const std::vector<Stmt> &b) {
    for (size_t i = 0; i < b.size(); i++) {
      size_t a0 = out.size();
      stmt(b[i]);
      if (i + 1 < b.size()) tok(";");
      if (b[i].share > 0 && i + 1 < b.size()) shared_stmts[b[i].share].push_back({a0, out.size()});
      nl();
    }
  }
  void stmt(const Stmt &s) {
    nl();
    cur_sid = s.id; cur_role = 1;
    for (auto &l : s.labels) { tok(l, 2); tok(":"); cur_sid = s.id; }
    cur_sid = s.id;
    switch (s.k) {
      case Stmt::ASSIGN: tok(s.var, 2); tok(":="); val(s.val); break;
      case Stmt::LOOP:
        K("LOOP"); tok(s.var, 2); K("DO"); nl();
        block(s.body);
        nl(); cur_sid = s.id; cur_role = 2; K("END");
        break;
      case Stmt::WHILE:
        K("WHILE"); tok(s.var, 2); tok("!= 0"); K("DO"); nl();
        block(s.body);
        nl(); cur_sid = s.id; cur_role = 2; K("END");
        break;
      case Stmt::GOTO: K("GOTO"); tok(s.target, 2); break;
      case Stmt::IF: K("IF"); tok(s.var, 2); tok("="); tok(std::to_string(s.c), 1); K("THEN"); K("GOTO"); tok(s.target, 2); break;
      case Stmt::STOP: K("STOP"); break;
      case Stmt::NOP: tok("NOP", 2); break;
      case Stmt::SWAP: tok("SWAP", 2); tok(s.var, 2); tok(s.var2, 2); break;
      case Stmt::TWICE: tok("TWICE", 2); tok(s.var, 2); tok(std::to_string(s.c), 1); break;
      case Stmt::ITE:
        K("IF"); val(s.val); K("THEN"); nl();
        block(s.body);
        nl(); tok("ELSE", 2); nl();
        block(s.body2);
        nl(); K("END");
        break;
    }
    cur_sid = -1;
  }
  void macro_defs() {
    unsigned m = p.ast.macros;
    if (m & MF_CALL) {
      nl(); K("DEFINE"); K("PRIORITY"); tok("30", 1); tok("<ID>"); tok("("); tok("<ARGS>"); tok(")"); K("AS");
      K("RUN"); tok("$0"); K("WITH"); tok("$1"); K("END"); K("ENDDEFINE");
    }
    if (m & MF_NOP) { nl(); K("DEFINE"); tok("NOP", 2); K("AS"); tok("_", 2); tok(":="); tok("0", 1); K("ENDDEFINE"); }
    if (m & MF_SWAP) {
      nl(); K("DEFINE"); tok("SWAP", 2); tok("<ID>"); tok("<ID>"); K("AS");
      tok("#0"); tok(":="); tok("$0"); tok(";"); tok("$0"); tok(":="); tok("$1"); tok(";"); tok("$1"); tok(":="); tok("#0");
      K("ENDDEFINE");
    }
    if (m & MF_ARITH) {
      nl(); K("DEFINE"); K("PRIORITY"); tok("10", 1); tok("<V>"); tok("+"); tok("<V>"); K("AS"); K("RUN"); tok("add", 2); K("WITH"); tok("$0"); tok(","); tok("$1"); K("END"); K("ENDDEFINE");
      nl(); K("DEFINE"); K("PRIORITY"); tok("20", 1); tok("<V>"); tok("*"); tok("<V>"); K("AS"); K("RUN"); tok("mul", 2); K("WITH"); tok("$0"); tok(","); tok("$1"); K("END"); K("ENDDEFINE");
      nl(); K("DEFINE"); K("PRIORITY"); tok("15", 1); tok("@"); tok("<V>"); K("AS"); tok("2", 1); tok("*"); tok("$0"); K("ENDDEFINE");
    }
    if (m & MF_TWICE) {
      nl(); K("DEFINE"); tok("TWICE", 2); tok("<ID>"); tok("<INT>"); K("AS");
      tok("#0"); tok(":="); tok("$1"); tok(";"); nl();
      K("LOOP"); tok("#0"); K("DO"); tok("$0"); tok(":="); tok("$0"); tok("+"); tok("1", 1); K("END"); tok(";"); nl();
      K("LOOP"); tok("#0"); K("DO"); K("LOOP"); tok("#0"); K("DO"); tok("$0"); tok(":="); tok("$0"); tok("+"); tok("1", 1); K("END"); K("END");
      K("ENDDEFINE");
    }
    if (m & MF_NONLR) { nl(); K("DEFINE"); tok("tail", 2); tok("<ID>"); tok("<P>"); K("AS"); tok("$1"); K("ENDDEFINE"); }
    if (m & MF_ITE) {
      nl(); K("DEFINE"); K("IF"); tok("<V>"); K("THEN"); tok("<P>"); tok("ELSE", 2); tok("<P>"); K("END"); K("AS"); nl();
      tok("#0"); tok(":="); tok("0", 1); tok(";"); tok("#1"); tok(":="); tok("1", 1); tok(";"); tok("#2"); tok(":="); tok("$0"); tok(";"); nl();
      K("LOOP"); tok("#2"); K("DO"); tok("#0"); tok(":="); tok("1", 1); tok(";"); tok("#1"); tok(":="); tok("0", 1); K("END"); tok(";"); nl();
      K("LOOP"); tok("#0"); K("DO"); tok("$1"); K("END"); tok(";"); nl();
      K("LOOP"); tok("#1"); K("DO"); tok("$2"); K("END"); nl();
      K("ENDDEFINE");
    }
    nl();
  }
  void routine(const Routine &r, int rid) {
    nl();
    cur_rid = rid; cur_role = 4;
    K("PROGRAM"); tok(r.name, 2);
    if (r.has_in) {
      K("IN");
      for (size_t i = 0; i < r.params.size(); i++) { if (i) tok(","); tok(r.params[i], 2); }
      if (r.has_out) { K("OUT"); tok(r.out, 2); }
    }
    K("DO"); nl();
    block(r.body);
    nl(); cur_rid = rid; cur_role = 3; K("END"); nl();
    cur_rid = -1;
  }
};

struct Segment { size_t a, b; std::string file; };

struct Renderer {
  Project &p;
  Rng rng;
  std::vector<PTok> &T;
  std::vector<Segment> segs;      // properly nested or disjoint
  std::map<std::string, std::pair<size_t, size_t>> first_render;  // shared files: token range of the first rendering
  std::vector<char> rendered;

  Renderer(Project &p, std::vector<PTok> &T) : p(p), rng(p.layout.seed ^ 0x7f4a7c15ULL), T(T) {}

  std::string kw_include() {
    static const char *sp[] = {"INCLUDE", "Include", "include"};
    if (p.layout.spelling < 3) return sp[p.layout.spelling];
    return sp[rng.below(3)];
  }

  // separator in front of token i (not the first of its file)
  void sep(std::string &text, int &line, bool brk) {
    if (p.layout.style == 0) {
      if (brk) { text += "\n"; line++; } else text += " ";
      return;
    }
    if (p.layout.style == 2) {   // dense: one line, a rare break
      if (rng.chance(1, 25)) { text += "\n"; line++; } else text += " ";
      return;
    }
    int w = (int)rng.below(100);
    if (w < 58) text += " ";
    else if (w < 82) { text += "\n"; line++; }
    else if (w < 88) text += "  ";
    else if (w < 92) text += "\t";
    else if (w < 96) { text += "\n\n"; line += 2; }
    else { text += " // note " + std::to_string(w) + "\n"; line++; }
  }

  const Segment *segment_at(size_t i, size_t a, size_t b) {
    const Segment *best = nullptr;
    for (auto &s : segs)
      if (s.a == i && s.b <= b && !(s.a == a && s.b == b))
        if (!best || s.b > best->b) best = &s;  // outermost first
    return best;
  }

  void render_file(const std::string &name, size_t a, size_t b, int depth) {
    std::string text;
    int line = 1;
    bool first = true;
    size_t i = a;
    while (i < b) {
      const Segment *s = depth < 6 ? segment_at(i, a, b) : nullptr;
      if (s && s->file == name) s = nullptr;
      if (s) {
        // directive: `include "file"`; canonical: on its own line
        if (!first) sep(text, line, true);
        first = false;
        text += kw_include() + " \"" + s->file + "\"";
        if (!p.files.count(s->file)) {
          p.files[s->file] = "";  // reserve
          first_render[s->file] = {s->a, s->b};
          render_file(s->file, s->a, s->b, depth + 1);
        } else {
          // later copy of a shared file: its tokens sit where the first rendering put them
          auto fr = first_render[s->file];
          for (size_t k = 0; k < s->b - s->a && fr.first + k < fr.second; k++) T[s->a + k].loc = T[fr.first + k].loc;
        }
        size_t nb = s->b;
        i = nb;
        if (i < b && p.layout.style == 0) T[i].brk = true;  // what follows a directive starts a new line
        continue;
      }
      if (!first) sep(text, line, T[i].brk);
      first = false;
      text += T[i].text;
      T[i].loc = {name, line};
      p.token_lines.insert({name, line});
      i++;
    }
    if (p.layout.style == 0 || rng.chance(1, 2)) text += "\n";
    p.files[name] = text;
  }
};

bool same_text(const std::vector<PTok> &T, size_t a1, size_t b1, size_t a2, size_t b2) {
  if (b1 - a1 != b2 - a2) return false;
  for (size_t k = 0; k < b1 - a1; k++) if (T[a1 + k].text != T[a2 + k].text) return false;
  return true;
}

}  // namespace

void render(Project &p) {
  p.files.clear(); p.toks.clear(); p.token_lines.clear(); p.stmt_line.clear(); p.stmt_end_line.clear(); p.routine_end_line.clear();
  number_statements(p.ast);
  Printer pr(p);
  // spelling decisions must not depend on share copies: print shared routines with a fixed spelling stream
  std::map<int, std::pair<size_t, size_t>> share_first;
  std::vector<std::pair<size_t, size_t>> routine_range(p.ast.defs.size());
  pr.macro_defs();
  size_t macro_end = pr.out.size();
  for (size_t i = 0; i < p.ast.defs.size(); i++) {
    size_t a = pr.out.size();
    if (p.ast.defs[i].share > 0 && share_first.count(p.ast.defs[i].share)) {
      // reproduce the first copy's tokens exactly (same spellings) but with this copy's ids
      auto fr = share_first[p.ast.defs[i].share];
      pr.routine(p.ast.defs[i], (int)i);
      // only if this copy still says the same (a reduction or a mutation may have changed one of them)
      auto lower = [](std::string t) { for (auto &ch : t) ch = (char)tolower((unsigned char)ch); return t; };
      bool same = pr.out.size() - a == fr.second - fr.first;
      for (size_t k = 0; same && k < fr.second - fr.first; k++) if (lower(pr.out[a + k].text) != lower(pr.out[fr.first + k].text)) same = false;
      if (same) for (size_t k = 0; k < fr.second - fr.first; k++) pr.out[a + k].text = pr.out[fr.first + k].text;
    } else {
      pr.routine(p.ast.defs[i], (int)i);
      if (p.ast.defs[i].share > 0) share_first[p.ast.defs[i].share] = {a, pr.out.size()};
    }
    routine_range[i] = {a, pr.out.size()};
  }
  pr.nl();
  pr.block(p.ast.main);
  p.toks = pr.out;
  std::vector<PTok> &T = p.toks;
  if (!T.empty()) T[0].brk = false;

  Renderer rd(p, T);
  // shared routine files
  int nshared = 0;
  for (auto &sf : share_first) {
    std::string fname = p.layout.naming == 1 ? "main.theo.s" + std::to_string(sf.first) : "shared" + std::to_string(sf.first) + ".theo";
    for (size_t i = 0; i < p.ast.defs.size(); i++)
      if (p.ast.defs[i].share == sf.first && same_text(T, routine_range[i].first, routine_range[i].second, sf.second.first, sf.second.second))
        rd.segs.push_back({routine_range[i].first, routine_range[i].second, fname});
    nshared++;
  }
  for (auto &ss : pr.shared_stmts) {
    if (ss.second.size() < 2) continue;
    auto lower = [](std::string t) { for (auto &ch : t) ch = (char)tolower((unsigned char)ch); return t; };
    auto f0 = ss.second[0];
    bool all_same = true;
    for (auto &r : ss.second) {
      if (r.second - r.first != f0.second - f0.first) all_same = false;
      for (size_t k = 0; all_same && k < r.second - r.first; k++) if (lower(T[r.first + k].text) != lower(T[f0.first + k].text)) all_same = false;
    }
    if (!all_same) continue;
    for (auto &r : ss.second) {
      for (size_t k = 0; k < r.second - r.first; k++) T[r.first + k].text = T[f0.first + k].text;
      rd.segs.push_back({r.first, r.second, p.layout.naming == 1 ? "main.theo.s" + std::to_string(ss.first) + "t" : "stmt" + std::to_string(ss.first) + ".theo"});
    }
    nshared++;
  }
  // further files: random segments; canonical ones are aligned to line starts and never cut a macro definition
  int want = p.layout.nfiles - 1 - nshared;
  auto overlaps_badly = [&](size_t a, size_t b) {
    for (auto &s : rd.segs) {
      bool disjoint = b <= s.a || s.b <= a;
      bool inside = s.a <= a && b <= s.b && !(s.a == a && s.b == b);
      bool contains = a <= s.a && s.b <= b && !(s.a == a && s.b == b);
      if ((s.file.rfind("shared", 0) == 0 || s.file.rfind("stmt", 0) == 0 || s.file.rfind("main.theo.s", 0) == 0) && !disjoint && !contains) return true;  // nothing is carved out of a shared file
      if (!(disjoint || inside || contains)) return true;
    }
    return false;
  };
  for (int f = 0, tries = 0; f < want && tries < 60 && T.size() > 2; tries++) {
    size_t a = rd.rng.below(T.size()), b;
    if (p.layout.style == 0) {
      if (a < macro_end) continue;
      while (a > 0 && !T[a].brk) a--;
      if (a < macro_end) continue;
      size_t len = 1 + rd.rng.below(std::min<size_t>(T.size() - a, 30));
      b = a + len;
      while (b < T.size() && !T[b].brk) b++;
      if (a == 0 && b >= T.size()) continue;
    } else {
      if (p.layout.cut_defs == 1 && macro_end > 1 && rd.rng.chance(1, 3)) {
        // a boundary inside a definition, preferably inside its pattern (between DEFINE and AS)
        std::vector<size_t> pat;
        bool in_pat = false;
        for (size_t i = 0; i < macro_end; i++) {
          std::string u = T[i].text; for (auto &ch : u) ch = (char)toupper((unsigned char)ch);
          if (u == "DEFINE" || u == "DEF") in_pat = true;
          else if (u == "AS") in_pat = false;
          else if (in_pat) pat.push_back(i);
        }
        a = !pat.empty() && rd.rng.chance(2, 3) ? pat[rd.rng.below(pat.size())] : rd.rng.below(macro_end);
      }
      size_t len = 1 + rd.rng.below(std::min<size_t>(T.size() - a, rd.rng.chance(1, 2) ? 4 : 30));
      b = std::min(T.size(), a + len);
      if (a == 0 && b >= T.size()) continue;
    }
    if (overlaps_badly(a, b)) continue;
    std::string chain;   // naming 1: main.theo.1, main.theo.12, main.theo.123: every name is a prefix of the next
    for (int d = 1; d <= f + 1; d++) chain += (char)('0' + d % 10);
    rd.segs.push_back({a, b, p.layout.naming == 1 ? "main.theo." + chain : "inc" + std::to_string(f + 1) + ".theo"});
    f++;
  }
  p.main = "main.theo";
  p.files[p.main] = "";
  rd.render_file(p.main, 0, T.size(), 0);

  for (auto &t : T) {
    if (t.role == 1 && t.sid >= 0 && !p.stmt_line.count(t.sid)) p.stmt_line[t.sid] = t.loc;
    if (t.role == 2 && t.sid >= 0) p.stmt_end_line[t.sid] = t.loc;
    if (t.role == 3 && t.rid >= 0) p.routine_end_line[t.rid] = t.loc;
  }
  p.canonical = p.layout.style == 0;
  p.has_ast = true;
}

// =====================================================================================================
// JSON
// =====================================================================================================
static Json val_to_json(const Val &v) {
  Json j = Json::arr();
  switch (v.k) {
    case Val::VAR: j.push("v").push(v.var); break;
    case Val::CONST: j.push("c").push(v.c); break;
    case Val::ADD: j.push("+").push(v.var).push(v.c); break;
    case Val::SUB: j.push("-").push(v.var).push(v.c); break;
    case Val::BADD: case Val::BMUL: case Val::DBL: {
      j.push(v.k == Val::BADD ? "b+" : v.k == Val::BMUL ? "b*" : "@");
      for (auto &x : v.args) j.push(val_to_json(x));
      break;
    }
    case Val::CALL: {
      j.push("call").push(v.callee).push(v.sugar);
      Json a = Json::arr();
      for (auto &x : v.args) a.push(val_to_json(x));
      j.push(a);
      break;
    }
  }
  return j;
}
static Val val_from_json(const Json &j) {
  Val v;
  const std::string &k = j.a.at(0).s;
  if (k == "v") { v.k = Val::VAR; v.var = j.a.at(1).s; }
  else if (k == "c") { v.k = Val::CONST; v.c = j.a.at(1).n; }
  else if (k == "+") { v.k = Val::ADD; v.var = j.a.at(1).s; v.c = j.a.at(2).n; }
  else if (k == "-") { v.k = Val::SUB; v.var = j.a.at(1).s; v.c = j.a.at(2).n; }
  else if (k == "b+" || k == "b*" || k == "@") { v.k = k == "b+" ? Val::BADD : k == "b*" ? Val::BMUL : Val::DBL; for (size_t i = 1; i < j.a.size(); i++) v.args.push_back(val_from_json(j.a[i])); }
  else { v.k = Val::CALL; v.callee = j.a.at(1).s; v.sugar = (int)j.a.at(2).n; for (auto &x : j.a.at(3).a) v.args.push_back(val_from_json(x)); }
  return v;
}
static const char *SK[] = {"assign", "loop", "while", "goto", "if", "stop", "nop", "swap", "ite", "twice"};
static Json block_to_json(const std::vector<Stmt> &b);
static Json stmt_to_json(const Stmt &s) {
  Json j = Json::obj();
  j.set("k", SK[s.k]);
  if (!s.labels.empty()) { Json l = Json::arr(); for (auto &x : s.labels) l.push(x); j.set("l", l); }
  if (!s.var.empty()) j.set("var", s.var);
  if (!s.var2.empty()) j.set("var2", s.var2);
  if (s.k == Stmt::ASSIGN || s.k == Stmt::ITE) j.set("val", val_to_json(s.val));
  if (s.k == Stmt::IF || s.k == Stmt::TWICE) j.set("c", s.c);
  if (!s.target.empty()) j.set("to", s.target);
  if (s.share) j.set("share", s.share);
  if (!s.body.empty()) j.set("body", block_to_json(s.body));
  if (!s.body2.empty()) j.set("else", block_to_json(s.body2));
  return j;
}
static Json block_to_json(const std::vector<Stmt> &b) { Json j = Json::arr(); for (auto &s : b) j.push(stmt_to_json(s)); return j; }
static std::vector<Stmt> block_from_json(const Json &j);
static Stmt stmt_from_json(const Json &j) {
  Stmt s;
  std::string k = j.str("k");
  for (int i = 0; i < 10; i++) if (k == SK[i]) s.k = (Stmt::K)i;
  if (auto l = j.find("l")) for (auto &x : l->a) s.labels.push_back(x.s);
  s.var = j.str("var"); s.var2 = j.str("var2");
  if (auto v = j.find("val")) s.val = val_from_json(*v);
  s.c = j.num("c"); s.target = j.str("to"); s.share = (int)j.num("share");
  if (auto b = j.find("body")) s.body = block_from_json(*b);
  if (auto b = j.find("else")) s.body2 = block_from_json(*b);
  return s;
}
static std::vector<Stmt> block_from_json(const Json &j) { std::vector<Stmt> b; for (auto &x : j.a) b.push_back(stmt_from_json(x)); return b; }

static Json ast_to_json(const Ast &a) {
  Json j = Json::obj();
  Json defs = Json::arr();
  for (auto &r : a.defs) {
    Json d = Json::obj();
    d.set("name", r.name).set("has_in", r.has_in);
    Json ps = Json::arr(); for (auto &x : r.params) ps.push(x);
    d.set("params", ps).set("has_out", r.has_out).set("out", r.out).set("share", r.share).set("body", block_to_json(r.body));
    defs.push(d);
  }
  j.set("defs", defs).set("main", block_to_json(a.main)).set("macros", (long)a.macros).set("dup_params", a.dup_params);
  return j;
}
static Ast ast_from_json(const Json &j) {
  Ast a;
  for (auto &d : j.at("defs").a) {
    Routine r;
    r.name = d.str("name"); r.has_in = d.boolean("has_in"); r.has_out = d.boolean("has_out"); r.out = d.str("out"); r.share = (int)d.num("share");
    for (auto &x : d.at("params").a) r.params.push_back(x.s);
    r.body = block_from_json(d.at("body"));
    a.defs.push_back(r);
  }
  a.main = block_from_json(j.at("main"));
  a.macros = (unsigned)j.num("macros"); a.dup_params = j.boolean("dup_params");
  number_statements(a);
  return a;
}

Json project_to_json(const Project &p) {
  Json j = Json::obj();
  j.set("main", p.main);
  Json f = Json::obj();
  for (auto &kv : p.files) f.set(kv.first, kv.second);
  j.set("files", f);   // the text in clear; with an AST present it is re-derived on load and must agree
  if (p.has_ast) {
    j.set("ast", ast_to_json(p.ast));
    Json l = Json::obj();
    l.set("style", p.layout.style).set("seed", (long long)p.layout.seed).set("nfiles", p.layout.nfiles).set("spelling", p.layout.spelling);
    if (p.layout.naming) l.set("naming", p.layout.naming);
    if (p.layout.cut_defs) l.set("cut_defs", p.layout.cut_defs);
    j.set("layout", l);
  }
  return j;
}
Project project_from_json(const Json &j) {
  Project p;
  p.main = j.str("main", "main.theo");
  if (j.has("ast")) {
    p.has_ast = true;
    p.ast = ast_from_json(j.at("ast"));
    const Json &l = j.at("layout");
    p.layout.style = (int)l.num("style"); p.layout.seed = (uint64_t)l.num("seed"); p.layout.nfiles = (int)l.num("nfiles"); p.layout.spelling = (int)l.num("spelling"); p.layout.naming = (int)l.num("naming"); p.layout.cut_defs = (int)l.num("cut_defs");
    render(p);
  } else {
    for (auto &kv : j.at("files").o) p.files[kv.first] = kv.second.s;
  }
  return p;
}

std::string project_brief(const Project &p) {
  std::string s;
  for (auto &kv : p.files) {
    s += "[" + kv.first + "] ";
    std::string t = kv.second;
    for (auto &ch : t) if (ch == '\n') ch = '|';
    if (t.size() > 400) t = t.substr(0, 400) + "...";
    s += t + " ";
  }
  return s;
}

// =====================================================================================================
// Reductions
// =====================================================================================================
namespace {
void block_reductions(std::vector<Stmt> &b, const std::function<void()> &emit) {
  // remove one statement
  for (size_t i = 0; i < b.size(); i++) {
    if (b.size() > 1) {
      Stmt keep = b[i];
      b.erase(b.begin() + i);
      emit();
      b.insert(b.begin() + i, keep);
    }
    Stmt &s = b[i];
    // replace a compound by its body
    if (!s.body.empty() && (s.k == Stmt::LOOP || s.k == Stmt::WHILE || s.k == Stmt::ITE)) {
      Stmt keep = s;
      std::vector<Stmt> body = s.body;
      b.erase(b.begin() + i);
      b.insert(b.begin() + i, body.begin(), body.end());
      emit();
      b.erase(b.begin() + i, b.begin() + i + body.size());
      b.insert(b.begin() + i, keep);
    }
    Stmt &s2 = b[i];
    if (!s2.labels.empty()) { auto keep = s2.labels; s2.labels.clear(); emit(); b[i].labels = keep; }
    if (b[i].k == Stmt::ASSIGN && b[i].val.k != Val::CONST) { Val keep = b[i].val; b[i].val = Val(); emit(); b[i].val = keep; }
    if (b[i].k == Stmt::ASSIGN && b[i].val.k == Val::CONST && b[i].val.c > 1) { long long keep = b[i].val.c; b[i].val.c = 1; emit(); b[i].val.c = keep; }
    if (b[i].k == Stmt::ASSIGN && b[i].val.k == Val::CALL) {
      for (size_t k = 0; k < b[i].val.args.size(); k++)
        if (b[i].val.args[k].k != Val::CONST) { Val keep = b[i].val.args[k]; b[i].val.args[k] = Val(); emit(); b[i].val.args[k] = keep; }
      if (b[i].val.sugar) { b[i].val.sugar = 0; emit(); b[i].val.sugar = 1; }
    }
    if ((b[i].k == Stmt::ASSIGN) && (b[i].val.k == Val::ADD || b[i].val.k == Val::SUB) && b[i].val.c > 1) { long long keep = b[i].val.c; b[i].val.c = 1; emit(); b[i].val.c = keep; }
    block_reductions(b[i].body, emit);
    block_reductions(b[i].body2, emit);
  }
}
}  // namespace

std::vector<Ast> ast_reductions(const Ast &a0) {
  std::vector<Ast> out;
  Ast a = a0;
  auto emit = [&]() { Ast c = a; number_statements(c); out.push_back(c); };
  for (size_t i = 0; i < a.defs.size(); i++) {
    Routine keep = a.defs[i];
    a.defs.erase(a.defs.begin() + i);
    emit();
    a.defs.insert(a.defs.begin() + i, keep);
  }
  for (auto &r : a.defs) if (r.share) { int k = r.share; r.share = 0; emit(); r.share = k; }
  if (a.macros) {
    for (unsigned bit = 1; bit <= 64; bit <<= 1) if (a.macros & bit) { a.macros &= ~bit; emit(); a.macros |= bit; }
  }
  block_reductions(a.main, emit);
  for (auto &r : a.defs) {
    block_reductions(r.body, emit);
    if (r.has_out) { r.has_out = false; emit(); r.has_out = true; }
    if (r.params.size() > 1) { auto keep = r.params; r.params.pop_back(); emit(); r.params = keep; }
  }
  return out;
}

}  // namespace sim
