// Source-level reference semantics of LOOP/WHILE/GOTO, defined by desugaring the generator's AST into a
// tiny flat form (DESIGN.md §5.2) and running it on naturals.  Independent of the repository's parser,
// generator and VM: it never sees program text.
#pragma once
#include "project.hpp"

namespace sim {

struct Opd { enum K { VAR, CONST, TMP } k = CONST; int idx = 0; long long c = 0; };

struct RIns {
  enum K { EVENT, MOV, ADDC, SUBC, CALL, JMP, JZ, JEQ, DECR, STOP, RET, FINISH } k = MOV;
  Opd dst, a;
  long long c = 0;
  int target = -1;
  int callee = -1;
  std::vector<Opd> args;
  // EVENT: what the stepping debugger is expected to show
  int ev_kind = 0;  // 1 statement line, 2 loop END line, 3 routine END line
  int ev_id = 0;    // statement id / routine index
  std::string goto_label;  // unresolved label (patched)
};

struct RRoutine {
  std::string name;
  int ast_index = -1;  // -1 root
  std::vector<std::string> vars;  // params first
  int nparams = 0;
  int ntmps = 0;
  int out_var = 0;
  std::vector<RIns> code;
  std::vector<std::pair<int, int>> loop_bodies;  // [first, last) instruction of every LOOP / WHILE body
  int var(const std::string &n) {
    for (size_t i = 0; i < vars.size(); i++) if (vars[i] == n) return (int)i;
    vars.push_back(n);
    return (int)vars.size() - 1;
  }
};

struct RProgram {
  std::vector<RRoutine> routines;  // one per definition, then the root
  int root = 0;
  bool valid = true;        // false: some RUN names nothing defined earlier, arity mismatch, unknown label
  std::string why_invalid;
};

RProgram lower(const Ast &a);
inline bool is_user_var(const std::string &n) { return !n.empty() && n[0] != '#' && n.find(' ') == std::string::npos; }

struct RefAct { int routine; std::vector<long long> vars; };
struct RefEvent {
  int kind, id;
  std::vector<RefAct> acts;
};
struct RefRun {
  std::vector<RefEvent> events;   // up to max_events
  bool events_complete = false;   // every event of the run is in `events`
  bool finished = false;          // reached the end / STOP within the step budget
  bool stopped_by_stop = false;
  long long steps = 0;            // coarse steps executed (everything except events)
  bool out_of_range = false;      // some value reached 2^31-1: outside C01's scope
  std::vector<RefAct> final_acts; // live activations at the end (root first)
  int max_depth = 0;
  long long jumps_into_loop = 0, jumps_out_of_loop = 0, jumps_backward = 0, calls = 0, stop_in_callee = 0;
};
RefRun ref_run(const RProgram &p, long long max_steps, size_t max_events);

}  // namespace sim
