// Read-only view of the VM's private state through the THEO_VERIF friend declaration.
#pragma once
#include "VM/include/vm.hpp"
#include "util.hpp"

namespace Theo {
struct VerifAccess {
  static int ip(const VM &v) { return v.instruction_pointer; }
  static const std::vector<VM::Word> &data(const VM &v) { return v.data; }
  static const Program &code(const VM &v) { return v.code; }
  static bool stepping(const VM &v) { return v.stepping_mode_enabled; }
  static const std::set<BreakPoint> &enabled(const VM &v) { return v.enabled_breakpoints; }
  static size_t depth(const VM &v) { return v.stack.size(); }
  struct Frame { int data_start, seg_size, ret_target, ret_addr, debug_info; const VM *owner; };
  static Frame frame(const VM &v, size_t k) {
    const VM::Activation &a = v.stack[k];
    return {a.data_start, a.seg_size, a.ret_target, a.ret_addr, a.debug_info, a.vm};
  }
};
}  // namespace Theo

namespace sim {
using Theo::VerifAccess;

// hash of the execution state at an instruction boundary: ip, data words, activation geometry
inline uint64_t exec_state_hash(const Theo::VM &v) {
  Hasher h;
  h.add((uint64_t)VerifAccess::ip(v));
  auto &d = VerifAccess::data(v);
  h.add(d.size());
  for (int w : d) h.add((uint64_t)(int64_t)w);
  size_t n = VerifAccess::depth(v);
  h.add(n);
  for (size_t k = 0; k < n; k++) {
    auto f = VerifAccess::frame(v, k);
    h.add((uint64_t)f.data_start); h.add((uint64_t)f.seg_size); h.add((uint64_t)f.ret_target); h.add((uint64_t)(int64_t)f.ret_addr); h.add((uint64_t)f.debug_info);
  }
  return h.get();
}

inline bool same_instr(const Theo::Instruction &a, const Theo::Instruction &b, bool ignore_op) {
  if (!ignore_op && a.op != b.op) return false;
  // compare the operand words that the opcode uses
  switch (b.op) {
    case Theo::OpCode::TEST:
      return a.parameters.test.target == b.parameters.test.target && a.parameters.test.op1 == b.parameters.test.op1 && a.parameters.test.op2 == b.parameters.test.op2;
    case Theo::OpCode::ADD_CONST:
      return a.parameters.add.target == b.parameters.add.target && a.parameters.add.source == b.parameters.add.source && a.parameters.add.constant == b.parameters.add.constant;
    case Theo::OpCode::PREPARE_EXEC:
      return a.parameters.prepare.count == b.parameters.prepare.count && a.parameters.prepare.index == b.parameters.prepare.index && a.parameters.prepare.target == b.parameters.prepare.target;
    case Theo::OpCode::CONST:
    case Theo::OpCode::JMPC:
    case Theo::OpCode::ARG:
      return a.parameters.arg.target == b.parameters.arg.target && a.parameters.arg.source == b.parameters.arg.source;
    case Theo::OpCode::JMP:
    case Theo::OpCode::EXEC:
    case Theo::OpCode::RET:
      return a.parameters.jmp.offset == b.parameters.jmp.offset;
    default:
      return true;
  }
}

}  // namespace sim
