#include <cstdio>
#include <cstring>
#include <iostream>
#include <sys/resource.h>
#include <unistd.h>

#include "hll.hpp"
#include "sim.hpp"

namespace sim {
Hll g_hll_states;
int driver_main(int argc, char **argv);
}

extern "C" __attribute__((used)) const char *__asan_default_options() { return "exitcode=77:detect_leaks=0:abort_on_error=0:allocator_may_return_null=1:detect_stack_use_after_return=0:handle_abort=1:external_symbolizer_path=/usr/bin/llvm-symbolizer-14"; }
extern "C" __attribute__((used)) const char *__tsan_default_options() { return "halt_on_error=1:exitcode=66:report_signal_unsafe=0:second_deadlock_stack=1"; }
extern "C" __attribute__((used)) const char *__ubsan_default_options() { return "halt_on_error=1:exitcode=78:print_stacktrace=0"; }

using namespace sim;

// The library's recursive-descent passes recurse once per token; sanitizer frames are several times larger
// than normal ones.  Stack exhaustion on large inputs is outside what is sampled (DESIGN.md §9), so the
// simulator gives itself a large stack instead of tripping over it at ~2000 tokens.
static void ensure_big_stack(char **argv) {
  const rlim_t want = 4UL << 30;
  struct rlimit rl;
  if (getrlimit(RLIMIT_STACK, &rl) != 0) return;
  if (rl.rlim_cur != RLIM_INFINITY && rl.rlim_cur >= want) return;
  if (rl.rlim_cur == RLIM_INFINITY) return;
  if (getenv("THEOSIM_STACK_SET")) return;
  rl.rlim_cur = (rl.rlim_max == RLIM_INFINITY || rl.rlim_max >= want) ? want : rl.rlim_max;
  if (setrlimit(RLIMIT_STACK, &rl) != 0) return;
  setenv("THEOSIM_STACK_SET", "1", 1);
  execv("/proc/self/exe", argv);
}

int main(int argc, char **argv) {
  ensure_big_stack(argv);
  if (argc < 2) { fprintf(stderr, "usage: theosim gen|run1|replay|check ...\n"); return 2; }
  std::string cmd = argv[1];
  try {
    if (cmd == "gen" && argc >= 5) {
      Plan p = gen_plan(argv[2], strtoull(argv[3], 0, 10), atoll(argv[4]), argc > 5 ? atoll(argv[5]) : 0, argc > 6 ? argv[6] : "quick");
      std::cout << plan_to_json(p).dump(1) << "\n";
      return 0;
    }
    if (cmd == "run1" && argc >= 5) {
      Plan p = gen_plan(argv[2], strtoull(argv[3], 0, 10), atoll(argv[4]), argc > 5 ? atoll(argv[5]) : 0, argc > 6 ? argv[6] : "quick");
      Outcome o = exec_plan(p, true);
      std::cout << o.to_line() << "\n";
      return o.violated ? 1 : 0;
    }
    return driver_main(argc, argv);
  } catch (std::exception &e) {
    fprintf(stderr, "theosim: %s\n", e.what());
    return 2;
  }
}
