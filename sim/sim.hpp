// Core types of the simulator: plans (explicit, replayable), outcomes, the per-run context with its event
// log, and the hook dispatcher that connects THEO_VERIF_POINT to whichever world is running.
#pragma once
#include <map>
#include <string>
#include <vector>

#include "project.hpp"
#include "util.hpp"

namespace sim {

struct Op {
  std::string k;
  long long a = 0, b = 0, c = 0;
  std::string s;
};

struct Task {            // W3: one caller thread's work
  Project proj;
  std::vector<Op> ops;
};

struct Plan {
  std::string prop;      // property in focus
  std::string world;     // vm | fs | incl | macro | mt
  uint64_t seed = 0;     // provenance only
  long long run = 0, sub = 0;
  Project proj;
  std::map<std::string, long long> knobs;
  std::vector<Op> ops;
  std::vector<Task> tasks;          // mt
  std::vector<int> schedule;        // mt: decision at the k-th yield point: 0 continue, j>0 switch to the j-th next runnable
  std::string note;                 // free text: how the plan was made
  std::vector<Plan> history;        // plans executed before this one in the same process (their outcomes are not judged): what came earlier must not matter
};

Json plan_to_json(const Plan &p);
Plan plan_from_json(const Json &j);
std::string plan_brief(const Plan &p);

struct Stats {
  std::map<std::string, long long> c;
  void inc(const std::string &k, long long n = 1) { c[k] += n; }
  void max(const std::string &k, long long v) { auto &x = c[k]; if (v > x) x = v; }
  void merge(const Stats &o) { for (auto &kv : o.c) { if (kv.first.rfind("max_", 0) == 0) max(kv.first, kv.second); else c[kv.first] += kv.second; } }
};

struct Outcome {
  bool violated = false;
  std::string prop, oracle, msg;
  uint64_t log_hash = 0;
  bool nontrivial = false;     // satisfied the property's non-triviality rule
  uint64_t state_sig = 0;      // coverage signature (distinct states / interleavings measure)
  bool more_subs = false;      // enumeration: another sub-plan follows
  long long sim_steps = 0;
  Stats stats;
  std::string to_line() const;
  static Outcome from_line(const std::string &l);
};

struct SimAbort { };   // thrown through library code to end a run at a violation or an exceeded budget

// phases for crash attribution (kept in shared memory by the driver)
enum Phase { PH_NONE = 0, PH_GEN = 1, PH_COMPILE = 2, PH_LOAD = 3, PH_VMRUN = 4, PH_DEBUGGER = 5, PH_SCAN = 6, PH_MACRO = 7, PH_HARNESS = 8, PH_SESSION = 9 /* instructions executed inside a debugger session; the uninterrupted run has executed the same instructions before */ };
extern volatile int *g_phase_slot;
extern volatile long long g_progress;          // bumped by every hook event, every phase change and by long harness loops
inline void bump_progress() { __atomic_fetch_add(&g_progress, 1, __ATOMIC_RELAXED); }
inline void set_phase(int ph) { if (g_phase_slot) __atomic_store_n(g_phase_slot, ph, __ATOMIC_RELAXED); bump_progress(); }
// Last-resort guard against a loop that passes no hook point: a timer in the process itself ends it with exit code 99
// when nothing has made progress for `stall_s` seconds, or 98 after `hard_s` seconds in one run (call run_started()).
void arm_guard(int stall_s, int hard_s);
void run_started();
void die_with_parent();   // children of the harness must not outlive it
extern bool g_slow_abandoned;
extern long long g_pass_cost_cap, g_lr_total_cap;   // cost caps of the hook trampoline (abandon, never judge)

struct Ctx {
  std::string focus;
  Hasher log;
  bool trace = false;
  Stats stats;
  bool violated = false;
  std::string v_prop, v_oracle, v_msg;
  long long sim_steps = 0;
  std::string only_oracle;   // shrinking: only this oracle counts

  void ev(const char *tag, long long a = 0, long long b = 0, long long c = 0);
  void evs(const char *tag, const std::string &s);
  // record an oracle failure; returns true (and the caller should abort the run) if it belongs to the focus
  bool fail(const std::string &prop, const std::string &oracle, const std::string &msg);
  [[noreturn]] void abort_run() { throw SimAbort(); }
  void check(bool cond, const std::string &prop, const std::string &oracle, const std::string &msg) {
    if (!cond && fail(prop, oracle, msg)) abort_run();
  }
};

// hook dispatch
struct HookSink { virtual void on_point(int site, long a, long b) = 0; virtual ~HookSink() {} };
void install_hook(HookSink *s);   // nullptr uninstalls
struct HookGuard { explicit HookGuard(HookSink *s) { install_hook(s); } ~HookGuard() { install_hook(nullptr); } };

// worlds
Plan gen_plan(const std::string &prop, uint64_t verif_seed, long long run, long long sub, const std::string &tier);
Outcome exec_plan(const Plan &plan, bool trace, const std::string &only_oracle = "");

// per-world generators / executors
Plan gen_vm_plan(const std::string &prop, Rng &rng, long long sub, const std::string &tier);
void exec_vm_plan(const Plan &plan, Ctx &ctx, Outcome &out);
Plan gen_fs_plan(const std::string &prop, Rng &rng, long long sub, const std::string &tier);
void exec_fs_plan(const Plan &plan, Ctx &ctx, Outcome &out);
Plan gen_mt_plan(const std::string &prop, Rng &rng, long long sub, const std::string &tier);
void exec_mt_plan(const Plan &plan, Ctx &ctx, Outcome &out);

Plan materialise_fs_plan(const Plan &plan);
void attach_history(Plan &p, Rng &rng);   // a generated earlier plan of the same process (sibling project)
Project random_macro_project(Rng &rng, bool random_set);   // a macro family or a random macro set with uses, as raw text   // faults applied: the delivered files become the (raw) project, no fault ops left
void seed_heap(uint64_t seed);   // plain build: the allocator's placement decisions follow this seed from now on (no-op in the sanitizer builds)
bool heap_is_seeded();
uint64_t allocated_bytes();   // sanitizer's live heap bytes (0 when unavailable)

}  // namespace sim
