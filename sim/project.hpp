// The workload side: an AST of a LOOP/WHILE/GOTO project (never parsed from text), its printer with a
// seeded layout, and the derived file map with the (file,line) of every printed token.
#pragma once
#include <map>
#include <set>
#include <string>
#include <vector>

#include "util.hpp"

namespace sim {

struct Val {
  enum K { VAR = 0, CONST = 1, ADD = 2, SUB = 3, CALL = 4, BADD = 5, BMUL = 6, DBL = 7 } k = CONST;   // BADD / BMUL / DBL: MF_ARITH expressions (args)
  std::string var;      // VAR / ADD / SUB operand
  long long c = 0;      // CONST / ADD / SUB constant
  std::string callee;   // CALL
  std::vector<Val> args;
  int sugar = 0;        // CALL: 1 = printed as f(a, b) through the user call macro (needs >= 1 argument)
};

struct Stmt {
  // core statements, then macro statements (the AST holds what they mean; the printer emits the macro use)
  enum K { ASSIGN = 0, LOOP = 1, WHILE = 2, GOTO = 3, IF = 4, STOP = 5, NOP = 6, SWAP = 7, ITE = 8, TWICE = 9 } k = ASSIGN;
  int id = 0;                       // unique within the project, assigned by number_statements()
  std::vector<std::string> labels;  // labels in front of the statement
  std::string var;                  // ASSIGN target; LOOP / WHILE / IF variable; SWAP first
  std::string var2;                 // SWAP second
  Val val;                          // ASSIGN value; ITE condition
  long long c = 0;                  // IF constant
  std::string target;               // GOTO / IF label
  std::vector<Stmt> body;           // LOOP / WHILE body; ITE then-branch
  std::vector<Stmt> body2;          // ITE else-branch
  int share = 0;                    // > 0: statements with equal share id are textually identical and live in one file included repeatedly
};

struct Routine {
  std::string name;
  bool has_in = true;
  std::vector<std::string> params;
  bool has_out = false;
  std::string out;
  std::vector<Stmt> body;
  int share = 0;  // > 0: routines with equal share id are textually identical and live in one file included repeatedly
};

enum MacroFamily { MF_CALL = 1, MF_NOP = 2, MF_SWAP = 4, MF_ITE = 8, MF_NONLR = 16 /* a definition the compiler must reject: pattern ends in <P> */, MF_TWICE = 32 /* body runs two loops over one temporary */,
                   MF_ARITH = 64 /* infix + and * and prefix @ as user macros of priorities 10, 20, 15 over programs add / mul */ };

struct Ast {
  std::vector<Routine> defs;
  std::vector<Stmt> main;
  unsigned macros = 0;   // families whose definitions are printed at the top
  bool dup_params = false;  // some routine repeats a parameter name: no reference semantics
};

struct Layout {
  int style = 0;       // 0 canonical, 1 free, 2 dense (as few lines as possible)
  uint64_t seed = 1;   // drives every layout decision
  int nfiles = 1;      // target number of files (main + included)
  int spelling = 0;    // 0 upper, 1 capitalised, 2 lower, 3 mixed
  int cut_defs = 0;    // 1 (free / dense styles): a third of the file boundaries are placed inside the macro definitions at the top
  int naming = 0;      // 0 inc1.theo / shared1.theo / ...; 1 every name extends the main file's name and each other (main.theo.1, main.theo.12, ...)
};

struct Loc {
  std::string file; int line = 0;
  bool operator<(const Loc &o) const { return file != o.file ? file < o.file : line < o.line; }
  bool operator==(const Loc &o) const { return file == o.file && line == o.line; }
};

struct PTok {
  std::string text;
  bool brk = false;      // canonical layout starts a new line before this token
  int sid = -1;          // statement the token belongs to (first token / END of that statement)
  int role = 0;          // 1 first token of statement sid, 2 END of loop statement sid, 3 END of routine rid, 4 header of routine
  int rid = -1;
  bool directive = false;
  Loc loc;               // filled by render
  int kind = 0;          // 1 = integer literal (for the literal-inflate fault), 2 = identifier
};

struct Project {
  bool has_ast = false;
  Ast ast;
  Layout layout;
  std::map<std::string, std::string> files;
  std::string main = "main.theo";
  // derived by render():
  std::vector<PTok> toks;
  std::set<Loc> token_lines;              // every (file,line) on which a printed token stands
  std::map<int, Loc> stmt_line;           // statement id -> line of its first token
  std::map<int, Loc> stmt_end_line;       // loop statement id -> line of its END
  std::map<int, Loc> routine_end_line;    // routine index -> line of its END
  bool canonical = false;
};

// ---- AST helpers
void number_statements(Ast &a);
int count_statements(const std::vector<Stmt> &b);
bool uses_while_goto(const Ast &a);
int count_nodes(const Stmt &s);

// ---- generator
struct GenParams {
  int max_defs = 3;
  int max_stmts = 8;      // per block budget
  int max_depth = 3;
  int max_const = 5;
  bool allow_while = true;
  bool allow_jumps = true;
  bool allow_stop = true;
  bool allow_noparam = true;
  bool allow_dup_params = false;
  bool boundary_values = false;   // C20: constants near 2^31
  unsigned macros = 0;
  bool loop_only_bias = false;    // C16 liveness: no WHILE / GOTO / IF
  bool call_heavy = false;        // C19 / C16
  bool init_vars = false;         // routines start by giving some variables non-zero values, so that loops iterate
  bool stop_in_callee = false;    // a STOP statement is placed inside a called program
  int locality = 0;               // percent: a statement reuses the variable of the previous one; IFs come in chains on one variable
  bool label_on_goto = false;     // a quarter of the labels are placed on GOTO statements
  int tail_after_stop = 0;        // percent: main ends in  ...; STOP; t: v := v  with a jump to t from further up (code reachable only by that jump, a label at the very end)
  int min_defs = 0;               // at least this many definitions (many small routines)
  int label_names = 0;            // 1: label names from a pool in which one name is another plus digits (a, a1, a11, a2, a12, ...)
  int loop_back_head = 0;         // percent of routine bodies that begin with a counted label/GOTO loop whose label is the body's very first statement
  int jump_into_loop = 0;         // percent of routine bodies that get an explicit "jump into a (nested) loop body" pattern
};
Ast generate_ast(Rng &rng, const GenParams &gp);

// ---- printer
void render(Project &p);   // fills files/main/toks/... from ast + layout
std::string ast_to_sexpr(const Ast &a);
Ast ast_from_sexpr(const std::string &s);
std::string project_brief(const Project &p);   // short one-line-ish form for evidence samples

Json project_to_json(const Project &p);
Project project_from_json(const Json &j);

// ---- AST reductions for the shrinker: returns candidate ASTs, each strictly smaller
std::vector<Ast> ast_reductions(const Ast &a);

}  // namespace sim
