// W1: debug-session world.  A generated project is compiled by the real compiler; a real Theo::VM is driven
// through an explicit op list (CPU steps, resumes, breakpoints, stepping mode, clears, resets, inspection).
// Oracles: golden uninterrupted run (C05), debugger model (C06), fresh-machine comparison (C17), frame
// accounting (C19), word range (C20), operand decoding + load-time validator (C03), table inverse (C08),
// source-level interpreter (C01, C07), depth / liveness (C16).
#include <algorithm>
#include <climits>
#include <functional>
#include <memory>
#include <sstream>

#include "Compiler/include/compiler.hpp"
#include "VM/include/verif_hook.hpp"
#include "access.hpp"
#include "hll.hpp"
#include "refsem.hpp"
#include "sim.hpp"

using namespace Theo;

namespace sim {

namespace {

bool is_site_op(OpCode op) { return op == OpCode::POTENTIAL_BREAK || op == OpCode::BREAK; }
Loc to_loc(const BreakPoint &b) { return {b.file, b.line}; }
std::string loc_str(const Loc &l) { return l.file + ":" + std::to_string(l.line); }

struct Golden {
  std::vector<int> ip;
  std::vector<uint64_t> h;
  std::vector<int> rank;     // sites executed before boundary t
  std::vector<short> depth;
  std::vector<int> words;    // data words at boundary t
  bool finished = false;
  bool unsafe = false;       // stopped because executing further would leave the VM's memory
  size_t len() const { return ip.size(); }
  size_t steps() const { return ip.size() - 1; }
};

struct VmWorld : HookSink {
  const Plan &plan;
  Ctx &ctx;
  Outcome &out;
  Project proj;
  Program prog;
  std::map<int, Loc> sites;
  std::vector<Loc> avail;
  std::vector<Loc> locations;   // avail + two invalid ones
  Golden G;
  RProgram rp;
  RefRun ref;
  bool have_ref = false;
  bool c07_applicable = false;
  bool tables_ok = true;
  int ndefs = 0;

  // session
  std::unique_ptr<VM> vm;
  size_t t = 0;
  std::set<Loc> enabled;
  bool stepping = false;
  bool since_reset_clean = true;  // no instruction executed since construction / reset
  int resets_done = 0;
  int stopped_site = -1;          // pc of the site the machine stopped at and has not left since
  // snapshot / restore: a copy of the machine taken at some instant and assigned back later (model state saved alongside)
  std::unique_ptr<VM> snap_vm;
  struct SnapModel { size_t t; std::set<Loc> enabled; bool stepping, since_reset_clean; int resets_done, stopped_site; } snap_model{};
  // monitor used while the library runs VM::execute()
  bool mon_on = false;
  size_t mon_t = 0, mon_stop_t = 0;
  bool mon_overrun = false;
  Hasher sig;
  bool deep_monitor = false;

  VmWorld(const Plan &p, Ctx &c, Outcome &o) : plan(p), ctx(c), out(o) {}

  long long knob(const char *k, long long d) const { auto it = plan.knobs.find(k); return it == plan.knobs.end() ? d : it->second; }

  // ------------------------------------------------------------------ invariants at an instruction boundary
  // C19 frame accounting, C20 word range, C16 depth
  void check_boundary(const VM &v, const char *when) {
    size_t n = VerifAccess::depth(v);
    auto &d = VerifAccess::data(v);
    long long sum = 0;
    bool contiguous = true;
    for (size_t k = 0; k < n; k++) {
      auto f = VerifAccess::frame(v, k);
      if (f.data_start != sum) contiguous = false;
      sum += f.seg_size;
    }
    if (!contiguous || sum != (long long)d.size()) {
      std::ostringstream m;
      m << when << ": data words=" << d.size() << " but live frames sum to " << sum << " (depth " << n << ", contiguous=" << contiguous << ") at ip " << VerifAccess::ip(v);
      ctx.check(false, "C19", contiguous ? "data_eq_live_frames" : "frames_contiguous", m.str());
    }
    if (d.size() <= 2048 || (ctx.sim_steps & 63) == 0) {
      for (size_t i = 0; i < d.size(); i++)
        if (d[i] < 0) {
          ctx.check(false, "C20", "word_in_range", std::string(when) + ": word " + std::to_string(i) + " = " + std::to_string(d[i]) + " at ip " + std::to_string(VerifAccess::ip(v)));
          break;
        }
    }
    if ((int)n > ndefs + 1) ctx.check(false, "C16", "depth_bound", std::string(when) + ": " + std::to_string(n) + " activations with " + std::to_string(ndefs) + " program definitions");
    ctx.stats.max("max_depth", (long long)n);
    ctx.stats.max("max_data_words", (long long)d.size());
  }

  // C03 dynamic: would the next instruction stay inside the VM's arrays?  false = must not be executed
  bool check_decode(const VM &v) {
    const Program &c = VerifAccess::code(v);
    int ip = VerifAccess::ip(v);
    auto bad = [&](const std::string &m) {
      ctx.check(false, "C03", "dynamic_operand_bounds", "ip " + std::to_string(ip) + ": " + m);
      return false;
    };
    if (ip < 0 || ip >= (int)c.code.size()) return bad("instruction pointer outside the program");
    const Instruction &i = c.code[ip];
    size_t n = VerifAccess::depth(v);
    auto &d = VerifAccess::data(v);
    auto top = [&]() { return VerifAccess::frame(v, n - 1); };
    auto below = [&]() { return VerifAccess::frame(v, n - 2); };
    auto in_frame = [&](const VerifAccess::Frame &f, int r) { return r >= 0 && r < f.seg_size && f.data_start >= 0 && (size_t)(f.data_start + f.seg_size) <= d.size(); };
    auto jump_ok = [&](int off) { long tgt = (long)ip + off; return tgt >= 0 && tgt < (long)c.code.size(); };
    switch (i.op) {
      case OpCode::POTENTIAL_BREAK: case OpCode::BREAK: case OpCode::HALT: return true;
      case OpCode::ADD_CONST:
        if (n < 1) return bad("ADD without a frame");
        if (!in_frame(top(), i.parameters.add.target) || !in_frame(top(), i.parameters.add.source)) return bad("ADD register outside the frame of size " + std::to_string(top().seg_size));
        return true;
      case OpCode::TEST:
        if (n < 1) return bad("TEST without a frame");
        if (!in_frame(top(), i.parameters.test.target) || !in_frame(top(), i.parameters.test.op1) || !in_frame(top(), i.parameters.test.op2)) return bad("TEST register outside the frame");
        return true;
      case OpCode::CONST:
        if (n < 1) return bad("CONST without a frame");
        if (!in_frame(top(), i.parameters.constant.target)) return bad("CONST register outside the frame");
        return true;
      case OpCode::JMP: return jump_ok(i.parameters.jmp.offset) ? true : bad("JMP target outside the program");
      case OpCode::JMPC:
        if (n < 1) return bad("JMPC without a frame");
        if (!in_frame(top(), i.parameters.jmpc.source)) return bad("JMPC register outside the frame");
        return jump_ok(i.parameters.jmpc.offset) ? true : bad("JMPC target outside the program");
      case OpCode::PREPARE_EXEC:
        if (i.parameters.prepare.count < 0 || i.parameters.prepare.count > (1 << 20)) return bad("PREPARE with frame size " + std::to_string(i.parameters.prepare.count));
        if (i.parameters.prepare.index < 0 || i.parameters.prepare.index >= (int)c.stack_maps.size()) return bad("PREPARE stack-map index outside the table");
        if (n >= 1 && !in_frame(top(), i.parameters.prepare.target)) return bad("PREPARE return target " + std::to_string(i.parameters.prepare.target) + " outside the caller frame of size " + std::to_string(top().seg_size));
        return true;
      case OpCode::ARG:
        if (n < 2) return bad("ARG with fewer than two activations");
        if (!in_frame(top(), i.parameters.arg.target)) return bad("ARG target " + std::to_string(i.parameters.arg.target) + " outside the callee frame of size " + std::to_string(top().seg_size));
        if (!in_frame(below(), i.parameters.arg.source)) return bad("ARG source outside the caller frame");
        return true;
      case OpCode::EXEC:
        if (n < 1) return bad("EXEC without a frame");
        if (i.parameters.exec.entry < 0 || i.parameters.exec.entry >= (int)c.code.size()) return bad("EXEC entry outside the program");
        return true;
      case OpCode::RET:
        if (n < 2) return bad("RET with fewer than two activations");
        if (!in_frame(top(), i.parameters.ret.source)) return bad("RET source outside the callee frame");
        if (!in_frame(below(), top().ret_target)) return bad("return target outside the caller frame");
        if (top().ret_addr < 0 || top().ret_addr >= (int)c.code.size()) return bad("return address outside the program");
        return true;
    }
    return bad("unknown opcode");
  }

  // ------------------------------------------------------------------ load-time checks
  // C08: the two tables are exact inverses; sites <=> break opcodes; locations are real token lines
  void check_tables() {
    tables_ok = true;
    auto fail = [&](const std::string &o, const std::string &m) { tables_ok = false; ctx.check(false, "C08", o, m); };
    for (auto &kv : prog.potential_breaks) {
      if (kv.second.empty()) fail("tables_inverse", "location " + kv.first.file + ":" + std::to_string(kv.first.line) + " lists no site");
      std::set<int> seen;
      for (int pc : kv.second) {
        auto it = prog.line_info.find(pc);
        if (it == prog.line_info.end() || !(to_loc(it->second) == to_loc(kv.first)))
          fail("tables_inverse", "site " + std::to_string(pc) + " listed under " + kv.first.file + ":" + std::to_string(kv.first.line) + " but line_info disagrees");
        if (!seen.insert(pc).second) fail("tables_inverse", "site " + std::to_string(pc) + " listed twice");
      }
    }
    for (auto &kv : prog.line_info) {
      auto it = prog.potential_breaks.find(kv.second);
      bool found = false;
      if (it != prog.potential_breaks.end()) for (int pc : it->second) if (pc == kv.first) found = true;
      if (!found) fail("tables_inverse", "site " + std::to_string(kv.first) + " reports " + kv.second.file + ":" + std::to_string(kv.second.line) + " which cannot be enabled (not in the location table)");
      if (kv.first < 0 || kv.first >= (int)prog.code.size() || !is_site_op(prog.code[kv.first].op))
        fail("site_is_break_instruction", "listed site " + std::to_string(kv.first) + " is not a breakpoint instruction");
    }
    for (size_t pc = 0; pc < prog.code.size(); pc++)
      if (is_site_op(prog.code[pc].op) && !prog.line_info.count((int)pc))
        fail("break_instruction_is_listed", "breakpoint instruction at " + std::to_string(pc) + " is in no table");
    std::set<BreakPoint> av = prog.getAvailableBreakpoints();
    for (auto &b : av) {
      if (b.file == "__standards__") fail("location_is_real_line", "available location in the hidden standard-macro file, line " + std::to_string(b.line));
      else if (proj.has_ast && !proj.token_lines.count(to_loc(b)))
        fail("location_is_real_line", "available location " + b.file + ":" + std::to_string(b.line) + " is not a line with a program token");
      if (!prog.potential_breaks.count(b)) fail("tables_inverse", "available location missing from table");
    }
    if (av.size() != prog.potential_breaks.size()) fail("tables_inverse", "getAvailableBreakpoints() differs from the location table");
  }

  // C03 static validator + C16 certificate
  void validate_program() {
    const auto &c = prog.code;
    auto fail = [&](const std::string &m) { ctx.check(false, "C03", "static_validator", m); };
    if (c.size() == 0) { fail("empty program"); return; }
    if (c[0].op != OpCode::PREPARE_EXEC) fail("program does not begin by creating the root frame");
    if (c[c.size() - 1].op != OpCode::HALT) fail("program does not end in HALT");
    int n = (int)c.size();
    // routine regions: JMP over ... RET at top level
    std::vector<int> region(n, -1);  // -1 root
    struct Reg { int start, ret; int size = -1; int nargs = -1; };
    std::vector<Reg> regs;
    for (int i = 1; i < n;) {
      if (c[i].op == OpCode::JMP && c[i].parameters.jmp.offset > 1) {
        int tgt = i + c[i].parameters.jmp.offset;
        if (tgt <= n && tgt - 1 > i && c[tgt - 1].op == OpCode::RET) {
          // must contain exactly one RET (the last): otherwise it is an ordinary forward jump
          bool inner_ret = false;
          for (int k = i + 1; k < tgt - 1; k++) if (c[k].op == OpCode::RET) inner_ret = true;
          if (!inner_ret) {
            regs.push_back({i + 1, tgt - 1});
            for (int k = i + 1; k < tgt; k++) region[k] = (int)regs.size() - 1;
            i = tgt;
            continue;
          }
        }
      }
      i++;
    }
    // The region recovery is a heuristic about how the generator lays routines out.  If the layout is not
    // recognised the region-based checks abstain (the dynamic monitor is shape-independent and still decides).
    bool shape_ok = true;
    if (proj.has_ast && (int)regs.size() != (int)proj.ast.defs.size()) shape_ok = false;
    for (int i = 0; i < n; i++)
      if (c[i].op == OpCode::RET && region[i] < 0) shape_ok = false;
    for (int i = 1; i < n && shape_ok; i++) {
      if (c[i].op != OpCode::PREPARE_EXEC) continue;
      int k = i + 1;
      while (k < n && c[k].op == OpCode::ARG) k++;
      if (k >= n || c[k].op != OpCode::EXEC) { shape_ok = false; break; }
      bool starts = false;
      for (auto &r : regs) if (r.start == c[k].parameters.exec.entry) starts = true;
      if (!starts) shape_ok = false;
    }
    if (!shape_ok) { ctx.stats.inc("validator_abstained_unrecognised_layout"); return; }
    // frame sizes from the call sites
    auto region_start = [&](int pc) { for (size_t r = 0; r < regs.size(); r++) if (regs[r].start == pc) return (int)r; return -1; };
    int root_size = c[0].parameters.prepare.count;
    if (root_size < 0) fail("root frame size " + std::to_string(root_size));
    if (c[0].parameters.prepare.index < 0 || c[0].parameters.prepare.index >= (int)prog.stack_maps.size()) fail("root stack-map index");
    for (int i = 1; i < n; i++) {
      if (c[i].op != OpCode::PREPARE_EXEC) continue;
      int k = i + 1, nargs = 0;
      int cnt = c[i].parameters.prepare.count, idx = c[i].parameters.prepare.index;
      while (k < n && c[k].op == OpCode::ARG) {
        if (c[k].parameters.arg.target < 0 || c[k].parameters.arg.target >= cnt)
          fail("ARG at " + std::to_string(k) + " writes register " + std::to_string(c[k].parameters.arg.target) + " of a callee frame of size " + std::to_string(cnt));
        nargs++; k++;
      }
      if (k >= n || c[k].op != OpCode::EXEC) { fail("PREPARE at " + std::to_string(i) + " is not followed by ARG* EXEC"); continue; }
      int entry = c[k].parameters.exec.entry;
      int r = region_start(entry);
      if (r < 0) { fail("EXEC at " + std::to_string(k) + " enters " + std::to_string(entry) + " which is not the start of a routine"); continue; }
      if (regs[r].ret >= k) ctx.check(false, "C16", "exec_enters_earlier_routine", "EXEC at " + std::to_string(k) + " enters a routine that ends at " + std::to_string(regs[r].ret) + " (not completely defined before the call)");
      if (regs[r].size < 0) { regs[r].size = cnt; regs[r].nargs = nargs; }
      else {
        if (regs[r].size != cnt) fail("calls of the routine at " + std::to_string(entry) + " disagree on its frame size");
        if (regs[r].nargs != nargs) fail("calls of the routine at " + std::to_string(entry) + " disagree on its argument count");
      }
      if (idx < 0 || idx >= (int)prog.stack_maps.size()) fail("PREPARE stack-map index outside the table");
      else {
        for (auto &kv : prog.stack_maps[idx].map) if (kv.first < 0 || kv.first >= cnt) fail("stack map names register " + std::to_string(kv.first) + " of a frame of size " + std::to_string(cnt));
        if (proj.has_ast) {
          // the argument count must be that of a definition with this name
          bool ok = false;
          for (auto &d : proj.ast.defs) if (d.name == prog.stack_maps[idx].func_name && (int)(d.has_in ? d.params.size() : 0) == nargs) ok = true;
          if (!ok) fail("call of '" + prog.stack_maps[idx].func_name + "' passes " + std::to_string(nargs) + " arguments, no definition takes that many");
        }
      }
    }
    if (c[0].parameters.prepare.index >= 0 && c[0].parameters.prepare.index < (int)prog.stack_maps.size())
      for (auto &kv : prog.stack_maps[c[0].parameters.prepare.index].map) if (kv.first < 0 || kv.first >= root_size) fail("root stack map names a register outside the root frame");
    // operands and jumps per region
    for (int i = 0; i < n; i++) {
      int r = region[i];
      int size = r < 0 ? root_size : regs[r].size;
      int lo = r < 0 ? 0 : regs[r].start, hi = r < 0 ? n - 1 : regs[r].ret;
      if (size < 0) continue;  // routine never called: unreachable code
      auto reg_ok = [&](int x, const char *what) { if (x < 0 || x >= size) fail(std::string(what) + " register " + std::to_string(x) + " at " + std::to_string(i) + " outside its frame of size " + std::to_string(size)); };
      auto jmp_ok = [&](int off) {
        int tgt = i + off;
        if (tgt < lo || tgt > hi || (r < 0 && region[tgt] >= 0)) fail("jump at " + std::to_string(i) + " lands at " + std::to_string(tgt) + " outside its routine");
      };
      switch (c[i].op) {
        case OpCode::ADD_CONST: reg_ok(c[i].parameters.add.target, "ADD"); reg_ok(c[i].parameters.add.source, "ADD"); break;
        case OpCode::TEST: reg_ok(c[i].parameters.test.target, "TEST"); reg_ok(c[i].parameters.test.op1, "TEST"); reg_ok(c[i].parameters.test.op2, "TEST"); break;
        case OpCode::CONST: reg_ok(c[i].parameters.constant.target, "CONST");
          if (c[i].parameters.constant.constant < 0) ctx.check(false, "C20", "constant_in_range", "CONST at " + std::to_string(i) + " loads " + std::to_string(c[i].parameters.constant.constant));
          break;
        case OpCode::JMP:
          if (!(r < 0 && i + c[i].parameters.jmp.offset <= n && i + 1 < n && region[i + 1] >= 0 && regs[region[i + 1]].start == i + 1)) jmp_ok(c[i].parameters.jmp.offset);
          break;
        case OpCode::JMPC: reg_ok(c[i].parameters.jmpc.source, "JMPC"); jmp_ok(c[i].parameters.jmpc.offset); break;
        case OpCode::PREPARE_EXEC: if (i > 0) reg_ok(c[i].parameters.prepare.target, "PREPARE target"); break;
        case OpCode::ARG: reg_ok(c[i].parameters.arg.source, "ARG source"); break;
        case OpCode::RET: reg_ok(c[i].parameters.ret.source, "RET"); break;
        default: break;
      }
    }
  }

  // ------------------------------------------------------------------ reference comparison helpers
  Loc event_loc(const RefEvent &e) const {
    if (e.kind == 1) { auto it = proj.stmt_line.find(e.id); return it == proj.stmt_line.end() ? Loc{"?", -2} : it->second; }
    if (e.kind == 2) { auto it = proj.stmt_end_line.find(e.id); return it == proj.stmt_end_line.end() ? Loc{"?", -2} : it->second; }
    auto it = proj.routine_end_line.find(e.id);
    return it == proj.routine_end_line.end() ? Loc{"?", -2} : it->second;
  }

  // compare every activation's variable view of `v` with reference activations
  bool views_match(VM &v, const std::vector<RefAct> &acts, std::string &why) {
    auto &st = v.getActivations();
    if (st.size() != acts.size()) { why = "VM has " + std::to_string(st.size()) + " activations, the reference " + std::to_string(acts.size()); return false; }
    for (size_t k = 0; k < st.size(); k++) {
      VM::Activation::Data view = st[k].getActivationVariables();
      const RRoutine &r = rp.routines[acts[k].routine];
      for (size_t i = 0; i < r.vars.size(); i++) {
        if (!is_user_var(r.vars[i])) continue;
        auto it = view.find(r.vars[i]);
        if (it == view.end()) { why = "activation " + std::to_string(k) + " (" + r.name + ") does not list variable " + r.vars[i]; return false; }
        if ((long long)it->second != acts[k].vars[i]) {
          why = "activation " + std::to_string(k) + " (" + r.name + "): " + r.vars[i] + " = " + std::to_string(it->second) + ", reference " + std::to_string(acts[k].vars[i]);
          return false;
        }
      }
    }
    return true;
  }

  // C07 at a stop: `rank` sites have been executed, the last one at pc
  void check_stop_against_reference(VM &v, int pc, int rank, const char *when) {
    if (!c07_applicable) return;
    size_t k = (size_t)rank - 1;
    if (k >= ref.events.size()) {
      if (ref.events_complete && ref.finished)
        ctx.check(false, "C07", "stepping_visits_exact_lines", std::string(when) + ": stop #" + std::to_string(rank) + " at " + loc_str(sites[pc]) + " but the source-level run has only " + std::to_string(ref.events.size()) + " stops");
      return;
    }
    Loc want = event_loc(ref.events[k]);
    Loc got = sites[pc];
    if (!(want == got))
      ctx.check(false, "C07", "stepping_visits_exact_lines", std::string(when) + ": stop #" + std::to_string(rank) + " is at " + loc_str(got) + ", the source-level run is at " + loc_str(want));
    if (got.file == "__standards__") ctx.check(false, "C07", "no_standards_line", "stop reports the hidden standard-macro file");
    std::string why;
    if (!views_match(v, ref.events[k].acts, why))
      ctx.check(false, "C07", "variables_at_stop", std::string(when) + ": stop #" + std::to_string(rank) + " at " + loc_str(got) + ": " + why);
    ctx.stats.inc("c07_stops_compared");
  }

  // ------------------------------------------------------------------ golden run
  void build_golden(size_t budget) {
    set_phase(PH_VMRUN);
    VM g(prog);
    G.ip.reserve(std::min<size_t>(budget + 1, 1 << 16));
    G.ip.push_back(0); G.h.push_back(exec_state_hash(g)); G.rank.push_back(0); G.depth.push_back(0); G.words.push_back(0);
    int rank = 0;
    const auto &code = prog.code;
    for (size_t n = 0; n < budget; n++) {
      if ((n & 1023) == 0) bump_progress();
      if (!check_decode(g)) { G.unsafe = true; ctx.stats.inc("golden_unsafe"); break; }
      int pc = VerifAccess::ip(g);
      if (code[pc].op == OpCode::HALT) { G.finished = true; break; }
      bool site = is_site_op(code[pc].op);
      bool r = g.executeSingle();
      ctx.sim_steps++;
      if (r) ctx.check(false, "C06", "no_stop_without_request", "uninterrupted run: executeSingle returned true at " + std::to_string(pc) + " with nothing enabled");
      check_boundary(g, "uninterrupted run");
      if (site) {
        rank++;
        check_stop_against_reference(g, pc, rank, "stepping run");
      }
      G.ip.push_back(VerifAccess::ip(g)); G.h.push_back(exec_state_hash(g)); G.rank.push_back(rank); G.depth.push_back((short)VerifAccess::depth(g)); G.words.push_back((int)VerifAccess::data(g).size());
    }
    if (!G.finished && !G.unsafe) {
      int pc = VerifAccess::ip(g);
      if (pc >= 0 && pc < (int)code.size() && code[pc].op == OpCode::HALT) G.finished = true;
    }
    ctx.ev("golden", (long long)G.steps(), G.finished, rank);
    ctx.stats.inc(G.finished ? "golden_finished" : "golden_unfinished");

    if (c07_applicable && G.finished && ref.finished && ref.events_complete && (size_t)rank != ref.events.size())
      ctx.check(false, "C07", "stepping_visits_exact_lines", "complete stepping run makes " + std::to_string(rank) + " stops, the source-level run " + std::to_string(ref.events.size()));

    // C01 on the uninterrupted run
    if (have_ref && !ref.out_of_range) {
      if (G.finished && ref.finished) {
        std::string why;
        if (!views_match(g, ref.final_acts, why)) ctx.check(false, "C01", "final_values", "uninterrupted run: " + why);
        ctx.stats.inc("c01_final_compared");
      } else if (G.finished && !ref.finished) {
        if ((long long)G.steps() <= ref.steps)
          ctx.check(false, "C01", "must_not_finish_early", "VM finished after " + std::to_string(G.steps()) + " instructions, the reference is still running after " + std::to_string(ref.steps) + " steps");
        ctx.stats.inc("c01_ref_unfinished");
      } else if (!G.finished && ref.finished && !G.unsafe) {
        long long bound = 32 * ref.steps + 1000;
        if ((long long)G.steps() >= bound)
          ctx.check(false, "C01", "must_finish", "reference finished in " + std::to_string(ref.steps) + " steps, the VM is still running after " + std::to_string(G.steps()) + " instructions");
        else ctx.stats.inc("c01_inconclusive_budget");
      }
    }
    // C19 against the source: memory is bounded by the deepest call chain.  The source-level run, once complete, knows the
    // deepest chain of the whole execution; no prefix of the VM's run may hold more activations than that
    if (have_ref && !ref.out_of_range && ref.finished) {
      int peak = 0; size_t at = 0;
      for (size_t i = 0; i < G.depth.size(); i++) if (G.depth[i] > peak) { peak = G.depth[i]; at = i; }
      if (peak > ref.max_depth)
        ctx.check(false, "C19", "memory_bounded_by_call_depth", "after " + std::to_string(at) + " instructions the VM holds " + std::to_string(peak) + " activations; the deepest call chain of the source-level run is " + std::to_string(ref.max_depth));
      ctx.stats.inc("c19_depth_compared_with_source");
      if (G.finished && peak < ref.max_depth) ctx.stats.inc("c19_peak_below_source_depth");
    }
    // C16 bounded liveness: LOOP-only programs halt
    if (have_ref && !uses_while_goto(proj.ast) && !G.unsafe) {
      if (ref.finished) {
        long long bound = 32 * ref.steps + 1000;
        if (!G.finished && (long long)G.steps() >= bound)
          ctx.check(false, "C16", "loop_program_halts", "LOOP-only program: reference halts after " + std::to_string(ref.steps) + " steps, VM still running after " + std::to_string(G.steps()));
        if (G.finished) {
          ctx.stats.inc("c16_loop_only_halted");
          // the number of iterations is fixed by the bounds at entry: a LOOP-only program has exactly one run, and
          // any change in an iteration count shows in its variables
          std::string why;
          if (!ref.out_of_range && !views_match(g, ref.final_acts, why))
            ctx.check(false, "C16", "loop_iterations_fixed_at_entry", "LOOP-only program: " + why + " (iteration counts differ from the bounds at entry)");
          if ((long long)G.steps() < ref.steps)
            ctx.check(false, "C16", "loop_iterations_fixed_at_entry", "LOOP-only program finished after " + std::to_string(G.steps()) + " instructions, fewer than the " + std::to_string(ref.steps) + " steps its LOOP bounds prescribe");
        }
      }
    }
    // C20: the boundary run is deterministic
    if (knob("twice", 0) && !G.unsafe) {
      VM g2(prog);
      size_t n = 0;
      for (; n < G.steps(); n++) { if (!check_decode(g2)) break; g2.executeSingle(); }
      if (n == G.steps() && exec_state_hash(g2) != G.h.back()) ctx.check(false, "C20", "deterministic_value", "two runs of the same program end in different states");
      ctx.stats.inc("c20_run_twice");
    }
  }

  // ------------------------------------------------------------------ session
  bool stop_expected(int pc) const {
    auto it = sites.find(pc);
    if (it == sites.end()) return false;
    return stepping || enabled.count(it->second);
  }
  bool at_halt(size_t tt) const { return G.finished && tt == G.len() - 1; }

  // control for C17: a newly constructed machine given the model's breakpoints and stepping flag, advanced to boundary `from`
  // instruction by instruction and then resumed - does it stop at boundary `expect`?
  bool fresh_machine_stops_at(size_t from, size_t expect) {
    bool keep = mon_on; mon_on = false;
    VM fresh(prog);
    for (auto &l : enabled) fresh.setBreakPoint(l.file, l.line, true);
    fresh.setSteppingMode(stepping);
    for (size_t k = 0; k < from; k++) fresh.executeSingle();
    fresh.execute();
    bool ok = expect < G.len() && VerifAccess::ip(fresh) == G.ip[expect] && exec_state_hash(fresh) == G.h[expect];
    mon_on = keep;
    return ok;
  }

  void on_point(int site, long a, long) override {
    if (site != Theo::verif::VM_STEP || !mon_on) return;
    // entry of executeSingle inside VM::execute(): we are at boundary mon_t
    if (mon_t >= G.len()) { mon_overrun = true; ctx.check(false, "C06", "resume_stops_at_first_site", "execute() ran past the known end of the instruction path"); ctx.abort_run(); }
    if ((int)a != G.ip[mon_t]) {
      ctx.check(false, "C05", "same_instruction_path", "during execute(): ip " + std::to_string(a) + " at step " + std::to_string(mon_t) + ", uninterrupted run is at " + std::to_string(G.ip[mon_t]));
      // not in focus: the path is unknown from here on, stop the run quietly
      ctx.abort_run();
    }
    if (mon_t > mon_stop_t) {
      mon_overrun = true;
      // with stepping on, the next site executed is where the run stops: passing it means a line was not visited
      if (stepping && c07_applicable && sites.count(G.ip[mon_stop_t]))
        ctx.check(false, "C07", "stepping_visits_exact_lines", "stepping is on, but execute() passed the site at step " + std::to_string(mon_stop_t) + " (" + loc_str(sites[G.ip[mon_stop_t]]) + ") without stopping");
      if (resets_done > 0 && fresh_machine_stops_at(t, mon_stop_t + 1))
        ctx.check(false, "C17", "history_after_reset_as_fresh", "after " + std::to_string(resets_done) + " reset(s) execute() ran past step " + std::to_string(mon_stop_t) + " (" + (sites.count(G.ip[mon_stop_t]) ? loc_str(sites[G.ip[mon_stop_t]]) : std::string("?")) + "), where a newly constructed machine with the same breakpoints stops");
      ctx.check(false, "C06", "resume_stops_at_first_site", "execute() ran past the first requested stop (step " + std::to_string(mon_stop_t) + ", site " + std::to_string(G.ip[mon_stop_t]) + ")");
      ctx.abort_run();
    }
    if (deep_monitor && mon_t > 0) {
      if (!check_decode(*vm)) ctx.abort_run();
      check_boundary(*vm, "during execute()");
    }
    if (!at_halt(mon_t)) { mon_t++; ctx.sim_steps++; }
  }

  void check_code_integrity(const char *when) {
    const Program &c = VerifAccess::code(*vm);
    if (c.code.size() != prog.code.size()) { ctx.check(false, "C05", "program_unchanged", std::string(when) + ": program length changed"); return; }
    for (size_t i = 0; i < c.code.size(); i++) {
      bool site = sites.count((int)i) > 0;
      if (!same_instr(c.code[i], prog.code[i], site)) {
        ctx.check(false, "C05", "program_unchanged", std::string(when) + ": instruction " + std::to_string(i) + " differs from the compiled program");
        return;
      }
    }
  }

  void check_position(const char *when) {
    int ip = VerifAccess::ip(*vm);
    if (t >= G.len()) return;
    // C19 in a session: which activations are live is decided by the execution, not by what the VM still holds
    if ((int)VerifAccess::depth(*vm) != G.depth[t] || (int)VerifAccess::data(*vm).size() != G.words[t])
      ctx.check(false, "C19", "memory_is_the_live_activations", std::string(when) + ": the VM holds " + std::to_string(VerifAccess::depth(*vm)) + " activations / " + std::to_string(VerifAccess::data(*vm).size()) +
                " words where the execution has " + std::to_string(G.depth[t]) + " live activations / " + std::to_string(G.words[t]) + " words (step " + std::to_string(t) + ")");
    if (resets_done > 0 && (ip != G.ip[t] || exec_state_hash(*vm) != G.h[t]))
      ctx.check(false, "C17", "history_after_reset_as_fresh", std::string(when) + ": after " + std::to_string(resets_done) + " reset(s) the machine is not where a fresh machine is after the same " + std::to_string(t) + " instructions");
    if (ip != G.ip[t]) {
      ctx.check(false, "C05", "same_instruction_path", std::string(when) + ": ip " + std::to_string(ip) + ", uninterrupted run is at " + std::to_string(G.ip[t]) + " (step " + std::to_string(t) + ")");
      ctx.abort_run();  // the model has lost the machine
    }
    if (exec_state_hash(*vm) != G.h[t]) {
      ctx.check(false, "C05", "same_state", std::string(when) + ": data / activations differ from the uninterrupted run at step " + std::to_string(t));
      ctx.abort_run();
    }
  }

  // the machine has not moved since it stopped at a site: the reported location is still that site's
  void check_location_while_stopped(const char *when) {
    if (stopped_site < 0) return;
    BreakPoint cur = vm->getCurrentBreak();
    if (!(to_loc(cur) == sites[stopped_site]))
      ctx.check(false, "C06", "current_location_while_stopped", std::string(when) + ": still stopped at site " + std::to_string(stopped_site) + " (" + loc_str(sites[stopped_site]) + ") but getCurrentBreak() = " + cur.file + ":" + std::to_string(cur.line));
    ctx.stats.inc("probe_location_queried_after_debugger_op_while_stopped");
  }

  void check_enabled_set(const char *when) {
    std::set<BreakPoint> &e = vm->getEnabledBreakPoints();
    std::set<Loc> got;
    for (auto &b : e) got.insert(to_loc(b));
    if (got != enabled) {
      std::string m = std::string(when) + ": enabled set {";
      for (auto &l : got) m += loc_str(l) + " ";
      m += "} expected {";
      for (auto &l : enabled) m += loc_str(l) + " ";
      ctx.check(false, "C06", "enabled_set", m + "}");
    }
    if (vm->isSteppingModeEnabled() != stepping) ctx.check(false, "C06", "stepping_flag", std::string(when) + ": stepping mode flag");
  }

  void after_stop_checks(int pc, const char *when) {
    // stopped after executing the site at pc
    BreakPoint cur = vm->getCurrentBreak();
    {
      if (!(to_loc(cur) == sites[pc]))
        ctx.check(false, "C06", "current_location", std::string(when) + ": stopped at site " + std::to_string(pc) + " (" + loc_str(sites[pc]) + ") but getCurrentBreak() = " + cur.file + ":" + std::to_string(cur.line));
    }
    if (cur.line != -1) {
      // C08 session consequence: whatever stepping reports can be enabled
      VM scratch(prog);
      if (!scratch.setBreakPoint(cur.file, cur.line, true))
        ctx.check(false, "C08", "reported_location_can_be_enabled", std::string(when) + ": stop reports " + cur.file + ":" + std::to_string(cur.line) + " which setBreakPoint refuses");
      if (cur.file == "__standards__") ctx.check(false, "C08", "location_is_real_line", "stop reports the hidden standard-macro file");
    }
    stopped_site = pc;
    check_stop_against_reference(*vm, pc, G.rank[t], when);
    ctx.stats.inc("stops");
    if (G.depth[t] > 1) ctx.stats.inc("probe_stop_inside_callee");
    auto it = prog.potential_breaks.find(BreakPoint{sites[pc].file, sites[pc].line});
    if (it != prog.potential_breaks.end() && it->second.size() >= 2) ctx.stats.inc("probe_stop_on_line_with_several_sites");
  }

  void full_fresh_check(const char *when) {
    // C17: indistinguishable from a newly constructed machine
    VM fresh(prog);
    auto bad = [&](const std::string &m) { ctx.check(false, "C17", "reset_equals_fresh", std::string(when) + ": " + m); };
    if (VerifAccess::ip(*vm) != 0) bad("instruction pointer " + std::to_string(VerifAccess::ip(*vm)));
    if (!VerifAccess::data(*vm).empty()) bad(std::to_string(VerifAccess::data(*vm).size()) + " data words remain");
    if (VerifAccess::depth(*vm) != 0 || !vm->getActivations().empty()) bad("activations remain");
    if (!vm->getEnabledBreakPoints().empty()) bad("breakpoints remain enabled");
    if (vm->isSteppingModeEnabled()) bad("stepping mode still on");
    BreakPoint cur = vm->getCurrentBreak();
    if (cur.line != -1 || cur.file != "none") bad("current location " + cur.file + ":" + std::to_string(cur.line));
    if (vm->isDone() != fresh.isDone()) bad("isDone differs");
    const Program &c = VerifAccess::code(*vm), &f = VerifAccess::code(fresh);
    for (size_t i = 0; i < c.code.size() && i < f.code.size(); i++)
      if (!same_instr(c.code[i], f.code[i], false)) { bad("instruction " + std::to_string(i) + " not back to its compiled form"); break; }
    if (exec_state_hash(*vm) != exec_state_hash(fresh)) bad("execution state differs from a fresh machine");
  }

  void do_step(long long n) {
    for (long long k = 0; k < n; k++) {
      if (t >= G.len() - 1 && !G.finished) { ctx.stats.inc("ops_beyond_known_path"); return; }
      int pc = G.ip[t];
      bool halt = at_halt(t);
      bool expect = halt || stop_expected(pc);
      if (deep_monitor && !check_decode(*vm)) ctx.abort_run();
      uint64_t before = halt ? exec_state_hash(*vm) : 0;
      set_phase(PH_SESSION);
      bool r = vm->executeSingle();
      set_phase(PH_DEBUGGER);
      ctx.sim_steps++;
      since_reset_clean = false;
      if (halt) {
        ctx.stats.inc("fault_resume_after_halt");
        if (!r) ctx.check(false, "C17", "end_is_absorbing", "executeSingle at the end of the program returned false");
        if (exec_state_hash(*vm) != before) ctx.check(false, "C17", "end_is_absorbing", "executeSingle at the end of the program changed the state");
      } else {
        t++;
        stopped_site = -1;
        check_boundary(*vm, "after executeSingle");
        check_position("after executeSingle");
        if (r != expect)
          ctx.check(false, "C06", "single_step_return_value", "executeSingle at " + std::to_string(pc) + " returned " + (r ? "true" : "false") + ", expected " + (expect ? "true" : "false") + " (stepping=" + std::to_string(stepping) + ")");
        if (r && sites.count(pc)) after_stop_checks(pc, "single step");
      }
      ctx.ev("step", pc, r);
    }
  }

  // returns false if demoted
  void do_exec(long long demote_n) {
    // predicted stop
    size_t s = t;
    bool found = false;
    for (; s < G.len(); s++) {
      if (at_halt(s)) { found = true; break; }
      if (s + 1 < G.len() && stop_expected(G.ip[s])) { found = true; break; }
    }
    if (!found) { ctx.stats.inc("exec_demoted"); do_step(std::min<long long>(demote_n, (long long)(G.len() - 1 - t))); return; }
    bool halt = at_halt(s);
    bool was_at_halt = at_halt(t);
    uint64_t before = was_at_halt ? exec_state_hash(*vm) : 0;
    mon_on = true; mon_t = t; mon_stop_t = s; mon_overrun = false;
    set_phase(PH_SESSION);
    vm->execute();
    set_phase(PH_DEBUGGER);
    mon_on = false;
    since_reset_clean = since_reset_clean && was_at_halt;
    size_t new_t = halt ? s : s + 1;
    ctx.ev("exec", (long long)t, (long long)new_t, halt);
    // where did it actually stop?
    int ip = VerifAccess::ip(*vm);
    if (mon_t != new_t || ip != G.ip[new_t]) {
      ctx.check(false, "C06", "resume_stops_at_first_site", "execute() from step " + std::to_string(t) + " stopped at step " + std::to_string(mon_t) + " (ip " + std::to_string(ip) + "), expected step " + std::to_string(new_t) + " (ip " + std::to_string(G.ip[new_t]) + ")");
      // with stepping on, the next site executed is where the run stops: passing it means a line was not visited
      if (stepping && c07_applicable && mon_t > new_t)
        ctx.check(false, "C07", "stepping_visits_exact_lines", "stepping is on, but execute() from step " + std::to_string(t) + " passed the site at step " + std::to_string(new_t - 1) + " (" + loc_str(sites[G.ip[new_t - 1]]) + ") without stopping");
      // resynchronise if the machine is still on the path
      if (mon_t < G.len() && ip == G.ip[mon_t]) new_t = mon_t; else ctx.abort_run();
    }
    if (was_at_halt) {
      ctx.stats.inc("fault_resume_after_halt");
      if (exec_state_hash(*vm) != before) ctx.check(false, "C17", "end_is_absorbing", "execute() at the end of the program changed the state");
    }
    if (new_t != t) stopped_site = -1;
    t = new_t;
    check_boundary(*vm, "after execute()");
    check_position("after execute()");
    if (!halt && !was_at_halt) after_stop_checks(G.ip[s], "execute()");
    if (at_halt(t) && !vm->isDone()) ctx.check(false, "C06", "is_done", "at the end of the program isDone() is false");
  }

  void do_bp(const Loc &l, bool on, const char *kind) {
    bool valid = std::binary_search(avail.begin(), avail.end(), l);
    bool before = enabled.count(l) > 0;
    set_phase(PH_DEBUGGER);
    bool r = vm->setBreakPoint(l.file, l.line, on);
    if (r != valid) ctx.check(false, "C06", "enable_succeeds_iff_available", std::string("setBreakPoint(") + loc_str(l) + ") returned " + (r ? "true" : "false") + " for a location that is " + (valid ? "available" : "not available"));
    if (valid) { if (on) enabled.insert(l); else enabled.erase(l); }
    if (!valid) ctx.stats.inc("fault_bp_invalid_location");
    else if (on && before) ctx.stats.inc("fault_bp_redundant_enable");
    else if (!on && !before) ctx.stats.inc("fault_bp_disable_not_enabled");
    ctx.evs(kind, loc_str(l) + (on ? " on" : " off"));
    check_enabled_set("after setBreakPoint");
    check_location_while_stopped("after setBreakPoint");
    check_code_integrity("after setBreakPoint");
    check_position("after setBreakPoint");
  }

  void do_inspect() {
    set_phase(PH_DEBUGGER);
    uint64_t h0 = exec_state_hash(*vm);
    auto &st = vm->getActivations();
    if (t < G.len() && (int)st.size() != G.depth[t]) ctx.check(false, "C05", "same_state", "inspection: " + std::to_string(st.size()) + " activations, uninterrupted run has " + std::to_string(G.depth[t]));
    const Program &c = VerifAccess::code(*vm);
    auto &d = VerifAccess::data(*vm);
    for (size_t k = 0; k < st.size(); k++) {
      auto f = VerifAccess::frame(*vm, k);
      if (f.debug_info < 0 || f.debug_info >= (int)c.stack_maps.size() || f.data_start < 0 || (size_t)(f.data_start + f.seg_size) > d.size()) {
        ctx.check(false, "C03", "dynamic_operand_bounds", "activation " + std::to_string(k) + " has geometry outside the VM's arrays");
        continue;
      }
      VM::Activation::Data view = st[k].getActivationVariables();
      for (auto &kv : c.stack_maps[f.debug_info].map) {
        auto it = view.find(kv.second);
        if (it == view.end() || (kv.first < f.seg_size && it->second != d[f.data_start + kv.first]))
          ctx.check(false, "C07", "view_matches_memory", "activation " + std::to_string(k) + ": variable " + kv.second + " shown differently from its register");
      }
      if (k + 1 < st.size()) ctx.stats.inc("fault_inspect_outer_frame");
    }
    if (t < G.len() && t + 1 < G.len()) {
      OpCode op = prog.code[G.ip[t]].op;
      if (op == OpCode::ARG || op == OpCode::EXEC) ctx.stats.inc("fault_inspect_midcall_frame");
    }
    bool done = vm->isDone();
    if (t < G.len() && done != at_halt(t) && G.finished) ctx.check(false, "C06", "is_done", "isDone() = " + std::to_string(done) + " at step " + std::to_string(t));
    if (t == 0 && since_reset_clean) {
      BreakPoint cur = vm->getCurrentBreak();
      if (cur.line != -1 || cur.file != "none") ctx.check(false, "C06", "current_location_none_before_start", "before execution getCurrentBreak() = " + cur.file + ":" + std::to_string(cur.line));
    }
    check_enabled_set("inspection");
    check_location_while_stopped("inspection");
    if (exec_state_hash(*vm) != h0) ctx.check(false, "C05", "same_state", "inspection changed the machine");
    ctx.ev("inspect", (long long)t);
  }

  void do_reset() {
    set_phase(PH_DEBUGGER);
    if (t > 0 && !at_halt(t)) ctx.stats.inc("fault_reset_midrun");
    if (at_halt(t)) ctx.stats.inc("fault_reset_after_halt");
    if (t == 0) ctx.stats.inc("fault_double_reset");
    if (t < G.len() && G.depth[t] > 1) ctx.stats.inc("probe_reset_inside_callee");
    if (!enabled.empty()) ctx.stats.inc("probe_reset_with_breakpoints");
    if (stepping) ctx.stats.inc("probe_reset_with_stepping");
    vm->reset();
    resets_done++;
    t = 0; enabled.clear(); stepping = false; since_reset_clean = true; stopped_site = -1;
    ctx.ev("reset");
    check_boundary(*vm, "after reset()");
    full_fresh_check("after reset()");
    check_enabled_set("after reset()");
    check_code_integrity("after reset()");
    check_position("after reset()");
  }

  void run_session() {
    set_phase(PH_DEBUGGER);
    vm.reset(new VM(prog));
    t = 0; enabled.clear(); stepping = false; since_reset_clean = true;
    HookGuard hg(this);
    full_fresh_check("new machine");
    size_t nloc = locations.size();
    for (size_t oi = 0; oi < plan.ops.size(); oi++) {
      const Op &op = plan.ops[oi];
      ctx.stats.inc("op_" + op.k);
      sig.add(hash_str(op.k)); sig.add(t);
      g_hll_states.add_tuple((uint64_t)(t < G.len() ? G.ip[t] : -1), t < G.len() ? G.depth[t] : 0, enabled.size() * 2 + stepping, hash_str(op.k));
      if (op.k == "step") do_step(std::max<long long>(1, op.a));
      else if (op.k == "exec") do_exec(std::max<long long>(1, op.a));
      else if (op.k == "execall") {
        for (long long k = 0; k < std::max<long long>(1, op.a); k++) {
          if (at_halt(t)) break;
          size_t t0 = t;
          do_exec(64);
          if (t == t0) break;
        }
      } else if (op.k == "bp") do_bp(locations[(size_t)op.a % nloc], op.b != 0, "bp");
      else if (op.k == "bploc") do_bp(Loc{op.s, (int)op.a}, op.b != 0, "bp");
      else if (op.k == "bpcur") {
        BreakPoint cur = vm->getCurrentBreak();
        if (cur.line != -1) { ctx.stats.inc("fault_bp_toggle_current_line"); do_bp(to_loc(cur), op.b != 0, "bpcur"); }
      } else if (op.k == "clear") {
        if (enabled.empty()) ctx.stats.inc("fault_clear_empty");
        vm->clearBreakpoints(); enabled.clear();
        ctx.ev("clear");
        check_enabled_set("after clearBreakpoints"); check_location_while_stopped("after clearBreakpoints"); check_code_integrity("after clearBreakpoints"); check_position("after clearBreakpoints");
      } else if (op.k == "stepmode") {
        if (t > 0 && !at_halt(t)) ctx.stats.inc("fault_stepmode_flip_midrun");
        vm->setSteppingMode(op.a != 0); stepping = op.a != 0;
        ctx.ev("stepmode", op.a);
        check_enabled_set("after setSteppingMode"); check_location_while_stopped("after setSteppingMode"); check_position("after setSteppingMode");
      } else if (op.k == "reset") do_reset();
      else if (op.k == "inspect") do_inspect();
      else if (op.k == "snap") {
        set_phase(PH_DEBUGGER);
        snap_vm = std::make_unique<VM>(*vm);
        snap_model = {t, enabled, stepping, since_reset_clean, resets_done, stopped_site};
        ctx.ev("snap", (long long)t);
        ctx.stats.inc("fault_snapshot_taken");
        check_boundary(*vm, "after copying the machine"); check_position("after copying the machine");
      } else if (op.k == "restore" && snap_vm) {
        set_phase(PH_DEBUGGER);
        if (VerifAccess::depth(*vm) > 0) ctx.stats.inc("fault_snapshot_restored_onto_running_machine");
        *vm = *snap_vm;
        t = snap_model.t; enabled = snap_model.enabled; stepping = snap_model.stepping; since_reset_clean = snap_model.since_reset_clean; resets_done = snap_model.resets_done; stopped_site = snap_model.stopped_site;
        ctx.ev("restore", (long long)t);
        check_boundary(*vm, "after assigning a snapshot back"); check_enabled_set("after assigning a snapshot back"); check_code_integrity("after assigning a snapshot back"); check_position("after assigning a snapshot back");
      }
      if (ctx.violated) break;
    }
    // C01 "however the run was driven": a session that reached the end shows the reference's values
    if (at_halt(t) && have_ref && ref.finished && !ref.out_of_range) {
      std::string why;
      if (!views_match(*vm, ref.final_acts, why)) ctx.check(false, "C01", "final_values", "after the debug session: " + why);
      ctx.stats.inc("c01_session_final_compared");
    }
    if (at_halt(t)) ctx.stats.inc("session_reached_end");
  }

  // ------------------------------------------------------------------ whole run
  void run() {
    proj = plan.proj;
    ndefs = proj.has_ast ? (int)proj.ast.defs.size() : 1 << 20;
    deep_monitor = ctx.focus == "C03" || ctx.focus == "C19" || ctx.focus == "C20" || ctx.focus == "C16";
    if (proj.has_ast) {
      rp = lower(proj.ast);
      if (rp.valid) {
        ref = ref_run(rp, knob("ref_steps", 3000), (size_t)knob("ref_events", 1500));
        have_ref = true;
        if (ref.jumps_into_loop) ctx.stats.inc("probe_jump_into_loop_body");
        if (ref.jumps_out_of_loop) ctx.stats.inc("probe_jump_out_of_loop_body");
        if (ref.jumps_backward) ctx.stats.inc("probe_backward_jump");
        if (ref.stop_in_callee) ctx.stats.inc("probe_stop_statement_inside_callee");
        if (ref.calls) ctx.stats.inc("workload_makes_calls");
        if (ref.max_depth >= 3) ctx.stats.inc("probe_nested_calls_depth3");
      }
    }
    bool expect_reject = proj.has_ast && !rp.valid && rp.why_invalid.rfind("RUN ", 0) == 0;
    ctx.evs("project", project_brief(proj));
    set_phase(PH_COMPILE);
    CodegenResult cr = Theo::compile(proj.files, proj.main);
    set_phase(PH_HARNESS);
    ctx.ev("compiled", cr.generated_correctly, (long long)cr.code.code.size(), (long long)cr.errors.size());
    if (knob("callgraph_fault", 0)) ctx.stats.inc("fault_callgraph_mutation");
    if (expect_reject) {
      ctx.stats.inc("c16_expected_reject");
      if (cr.generated_correctly)
        ctx.check(false, "C16", "undefined_callee_rejected", "accepted a source in which " + rp.why_invalid);
      else {
        bool unknown = false;
        for (auto &e : cr.errors) if (e.t == CodegenResult::Error::Type::UNKNOWN_PROGRAM_NAME) unknown = true;
        if (!unknown) ctx.stats.inc("c16_rejected_for_other_reason");
        out.nontrivial = true;
      }
      return;
    }
    if (!cr.generated_correctly) {
      ctx.stats.inc(proj.has_ast && rp.valid ? "rejected_valid" : "rejected");
      if (ctx.trace) for (auto &e : cr.errors) ctx.evs("error", e.file + ":" + std::to_string(e.line) + " " + e.message);
      return;
    }
    ctx.stats.inc("accepted");
    prog = cr.code;
    if (knob("print_first", 0)) {
      // printing the program is an inspection: the object handed to the machines afterwards must be what the compiler returned
      set_phase(PH_LOAD);
      std::ostringstream listing;
      prog.disassemble(listing);
      set_phase(PH_HARNESS);
      ctx.stats.inc("fault_program_listed_before_use");
    }
    for (auto &kv : prog.line_info) sites[kv.first] = to_loc(kv.second);
    for (auto &kv : prog.potential_breaks) avail.push_back(to_loc(kv.first));
    std::sort(avail.begin(), avail.end());
    locations = avail;
    locations.push_back({"nofile.theo", 1});
    locations.push_back({proj.main, 100000});
    if (knob("alias_locs", 0) && !avail.empty()) {
      // names that are not the compiled file's name but resemble it: not available, and must stay without effect
      locations.push_back({"ws/" + avail[0].file, avail[0].line});
      locations.push_back({"C:\\p\\" + avail.back().file, avail.back().line});
      locations.push_back({avail[avail.size() / 2].file.substr(0, avail[avail.size() / 2].file.size() - 1), avail[avail.size() / 2].line});
      std::vector<Loc> keep;
      for (size_t i = avail.size(); i < locations.size(); i++) if (!std::binary_search(avail.begin(), avail.end(), locations[i])) keep.push_back(locations[i]);
      locations.resize(avail.size());
      for (auto &l : keep) locations.push_back(l);
    }
    c07_applicable = have_ref && proj.canonical && proj.ast.macros == 0;
    set_phase(PH_LOAD);
    check_tables();
    validate_program();
    if (!tables_ok) ctx.stats.inc("tables_inconsistent");
    size_t budget = (size_t)knob("golden_steps", 5000);
    if (ctx.focus == "C01" && have_ref && ref.finished) budget = std::max<size_t>(budget, (size_t)std::min<long long>(32 * ref.steps + 1001, 400000));
    if (ctx.focus == "C16" && have_ref && ref.finished && !uses_while_goto(proj.ast)) budget = std::max<size_t>(budget, (size_t)std::min<long long>(32 * ref.steps + 1001, 400000));
    build_golden(budget);
    if (knob("enum_reset", 0)) out.more_subs = plan.sub < (long long)G.steps() && plan.sub < knob("enum_limit", 300);
    if (knob("enum_total", 0)) { out.more_subs = plan.sub + 1 < knob("enum_total", 0); ctx.stats.inc("enumerated_short_histories"); if (plan.sub == 0) ctx.stats.inc("workloads_with_all_short_histories"); }
    if (G.unsafe) return;
    run_session();
    // non-triviality: the session executed something and used the debugger or reached the end
    long long mutating = ctx.stats.c["op_bp"] + ctx.stats.c["op_bpcur"] + ctx.stats.c["op_clear"] + ctx.stats.c["op_stepmode"] + ctx.stats.c["op_reset"];
    out.nontrivial = G.steps() >= 3 && (mutating > 0 || ctx.stats.c["session_reached_end"] > 0);
    sig.add(G.h.empty() ? 0 : G.h.back());
    out.state_sig = sig.get();
    if (proj.has_ast && proj.ast.macros) ctx.stats.inc("workload_user_macros");
    if (proj.files.size() > 1) ctx.stats.inc("workload_multi_file");
    if (!proj.canonical) ctx.stats.inc("workload_free_layout");
  }
};

}  // namespace

void exec_vm_plan(const Plan &plan, Ctx &ctx, Outcome &out) {
  VmWorld w(plan, ctx, out);
  w.run();
}

// =====================================================================================================
// plan generation
// =====================================================================================================
namespace {

void random_history(Rng &rng, std::vector<Op> &ops, int n, bool allow_reset, bool heavy_debug) {
  // swarm: per-run op weights
  int w_step = (int)rng.range(1, 6), w_exec = (int)rng.range(1, 5), w_bp = (int)rng.range(0, 5), w_bpcur = (int)rng.range(0, 2),
      w_clear = (int)rng.range(0, 2), w_mode = (int)rng.range(0, 3), w_reset = allow_reset ? (int)rng.range(0, 2) : 0, w_inspect = (int)rng.range(0, 3);
  int w_snap = rng.chance(1, 3) ? 1 : 0;
  if (heavy_debug) { w_bp += 2; w_mode += 1; }
  int total = w_step + w_exec + w_bp + w_bpcur + w_clear + w_mode + w_reset + w_inspect + w_snap;
  Op last_on;
  for (int i = 0; i < n; i++) {
    int w = (int)rng.below(total);
    Op o;
    if ((w -= w_step) < 0) { o.k = "step"; o.a = rng.chance(1, 3) ? rng.range(1, 40) : rng.range(1, 6); }
    else if ((w -= w_exec) < 0) { o.k = "exec"; o.a = rng.range(1, 30); }
    else if ((w -= w_bp) < 0) { o.k = "bp"; o.a = rng.chance(1, 4) ? (long long)rng.below(3) : (long long)rng.below(64); o.b = rng.chance(3, 4); }
    else if ((w -= w_bpcur) < 0) { o.k = "bpcur"; o.b = rng.chance(1, 2); }
    else if ((w -= w_clear) < 0) { o.k = "clear"; }
    else if ((w -= w_mode) < 0) { o.k = "stepmode"; o.a = rng.chance(1, 2); }
    else if ((w -= w_reset) < 0) { o.k = "reset"; }
    else if ((w -= w_snap) < 0) { o.k = rng.chance(1, 2) ? "snap" : "restore"; }
    else { o.k = "inspect"; }
    ops.push_back(o);
    if (o.k == "bp" && o.b) last_on = o;
    // what a front end does after a reset or a clear: enable the same line again and resume
    if ((o.k == "reset" || o.k == "clear") && last_on.k == "bp" && rng.chance(1, 2)) {
      ops.push_back(last_on);
      Op e; e.k = "exec"; e.a = rng.range(1, 30); ops.push_back(e);
    }
    // ... and a breakpoint is often followed by a resume
    if (o.k == "bp" && o.b && rng.chance(1, 3)) { Op e; e.k = "exec"; e.a = rng.range(1, 30); ops.push_back(e); }
  }
}

}  // namespace

Plan gen_vm_plan(const std::string &prop, Rng &rng, long long sub, const std::string &tier) {
  Plan p;
  p.world = "vm";
  bool thorough = tier == "thorough";
  GenParams gp;
  gp.max_defs = thorough ? 4 : 3;
  gp.max_stmts = thorough ? (int)rng.range(3, 14) : (int)rng.range(2, 8);
  gp.max_depth = (int)rng.range(1, 3);
  gp.max_const = (int)rng.range(1, 6);
  gp.allow_stop = rng.chance(1, 6);
  gp.allow_while = rng.chance(3, 4);
  gp.allow_jumps = rng.chance(3, 4);
  gp.allow_noparam = rng.chance(2, 3);
  gp.init_vars = rng.chance(7, 10);
  gp.stop_in_callee = rng.chance(1, 8);
  gp.jump_into_loop = rng.chance(1, 3) ? 35 : 0;
  gp.locality = rng.chance(1, 2) ? (int)rng.range(20, 60) : 0;
  unsigned macros = 0;
  if (rng.chance(1, 3)) macros = ((unsigned)rng.below(16) | (rng.chance(1, 3) ? (unsigned)MF_TWICE : 0u) | (rng.chance(1, 3) ? (unsigned)MF_ARITH : 0u));
  gp.macros = macros;
  Layout lay;
  lay.seed = rng.next();
  gp.loop_back_head = (lay.seed >> 13) % 3 == 0 ? 30 : 0;
  gp.tail_after_stop = (lay.seed >> 35) % 5 == 0 ? 50 : 0;
  gp.label_on_goto = (lay.seed >> 45) % 3 == 0;
  lay.style = rng.chance(2, 5) ? 0 : (rng.chance(2, 3) ? 1 : 2);
  lay.nfiles = rng.chance(1, 2) ? 1 : (int)rng.range(2, thorough ? 5 : 3);
  lay.spelling = (int)rng.below(4);
  lay.naming = (lay.seed >> 9) % 4 == 0 ? 1 : 0;
  lay.cut_defs = (lay.seed >> 27) % 2 == 0 ? 1 : 0;   // a quarter of the projects: file names that are prefixes of one another
  int max_ops = thorough ? 200 : 60;
  int nops = rng.chance(1, 3) ? (int)rng.range(1, 5) : (int)rng.range(1, max_ops);
  bool allow_reset = true, heavy = false;
  p.knobs["golden_steps"] = thorough ? 50000 : 5000;
  p.knobs["ref_steps"] = thorough ? 20000 : 3000;
  p.knobs["ref_events"] = thorough ? 6000 : 1500;

  std::string mode = "history";
  if (prop == "C01") {
    if (rng.chance(1, 2)) { gp.macros = (unsigned)rng.range(1, 15) | (rng.chance(1, 3) ? (unsigned)MF_TWICE : 0u) | (rng.chance(1, 3) ? (unsigned)MF_ARITH : 0u); }
    allow_reset = rng.chance(1, 3);
    mode = "to_end";
  } else if (prop == "C03") {
    gp.allow_dup_params = rng.chance(1, 2);
    gp.allow_noparam = true;
    gp.call_heavy = rng.chance(1, 2);
    if (gp.max_defs < 2) gp.max_defs = 2;
    mode = "to_end";
  } else if (prop == "C05") {
    heavy = true;
    if (rng.chance(1, thorough ? 6 : 30)) mode = "enum_short";
  } else if (prop == "C06") {
    heavy = true;
    if (rng.chance(1, 4)) mode = "sweep";
    else if (rng.chance(1, thorough ? 6 : 30)) mode = "enum_short";
  } else if (prop == "C07") {
    gp.macros = 0; lay.style = 0;
    mode = rng.chance(1, 2) ? "stepping_run" : "history";
  } else if (prop == "C08") {
    lay.style = rng.chance(9, 10) ? (rng.chance(2, 3) ? 1 : 2) : 0;
    lay.nfiles = (int)rng.range(1, thorough ? 6 : 4);
    if (gp.max_defs < 2) gp.max_defs = 2;
    gp.max_stmts = (int)rng.range(1, 5);
    nops = (int)rng.range(1, 12);
    mode = rng.chance(1, 2) ? "stepping_run" : "history";
  } else if (prop == "C16") {
    gp.loop_only_bias = rng.chance(1, 2);
    gp.call_heavy = true;
    gp.allow_stop = false;
    if (gp.max_defs < 2) gp.max_defs = 2;
    mode = "to_end";
  } else if (prop == "C17") {
    gp.stop_in_callee = rng.chance(1, 3);
    mode = sub >= 0 && rng.chance(1, 3) ? "reset_enum" : "history";
    if (mode == "history" && rng.chance(1, thorough ? 8 : 40)) mode = "enum_short";
    heavy = true;
  } else if (prop == "C19") {
    gp.call_heavy = true;
    gp.stop_in_callee = rng.chance(1, 3);
    if (gp.max_defs < 1) gp.max_defs = 1;
  } else if (prop == "C20") {
    gp.boundary_values = true;
    gp.max_const = 9;
    p.knobs["twice"] = 1;
    mode = "to_end";
  }

  if (prop == "C03" && (lay.seed >> 23) % 8 == 0) {
    // many small routines, label names that are other label names plus digits
    gp.min_defs = 10; gp.max_defs = 14; gp.max_stmts = 3; gp.max_depth = 1; gp.label_names = 1; gp.allow_jumps = true; gp.macros &= ~(unsigned)MF_ARITH;
  }
  if (mode == "enum_short") { gp.max_stmts = (int)rng.range(1, 3); gp.max_defs = (int)rng.range(0, 1); gp.max_depth = 1; gp.macros = 0; lay.nfiles = 1; }
  Ast ast = generate_ast(rng, gp);

  if (prop == "C16" && !ast.defs.empty() && rng.chance(1, 2)) {
    // call-graph faults on the source
    int nf = (int)rng.range(1, 2);
    for (int f = 0; f < nf; f++) {
      int kind = (int)rng.below(5);
      std::vector<Val *> calls;
      std::function<void(Val &)> cv = [&](Val &v) { if (v.k == Val::CALL) calls.push_back(&v); for (auto &a : v.args) cv(a); };
      std::function<void(std::vector<Stmt> &)> cb = [&](std::vector<Stmt> &b) { for (auto &s : b) { cv(s.val); cb(s.body); cb(s.body2); } };
      if (kind == 0) {  // a routine calls itself
        size_t i = rng.below(ast.defs.size());
        Routine &r = ast.defs[i];
        Stmt s; s.k = Stmt::ASSIGN; s.var = "x0"; s.val.k = Val::CALL; s.val.callee = r.name;
        for (size_t k = 0; k < (r.has_in ? r.params.size() : 0); k++) { Val a; a.k = Val::CONST; a.c = 1; s.val.args.push_back(a); }
        r.body.insert(r.body.begin() + rng.below(r.body.size() + 1), s);
      } else if (kind == 1 && ast.defs.size() >= 2) {  // forward reference to a later routine
        size_t i = rng.below(ast.defs.size() - 1), j = i + 1 + rng.below(ast.defs.size() - 1 - i);
        Routine &r = ast.defs[i]; const Routine &l = ast.defs[j];
        Stmt s; s.k = Stmt::ASSIGN; s.var = "x0"; s.val.k = Val::CALL; s.val.callee = l.name;
        for (size_t k = 0; k < (l.has_in ? l.params.size() : 0); k++) { Val a; a.k = Val::CONST; a.c = 1; s.val.args.push_back(a); }
        r.body.insert(r.body.begin() + rng.below(r.body.size() + 1), s);
      } else if (kind == 2 && ast.defs.size() >= 2) {  // swap two definitions
        size_t i = rng.below(ast.defs.size()), j = rng.below(ast.defs.size());
        std::swap(ast.defs[i], ast.defs[j]);
      } else if (kind == 4) {  // a call to a name that is no program: unknown, or one of the names the built-in x + c / x - c sugar uses, in another shape
        static const char *NAMES[] = {"__INC__", "__DEC__", "nosuch", "__INC__", "__DEC__", "x0"};
        Stmt s; s.k = Stmt::ASSIGN; s.var = "x0"; s.val.k = Val::CALL; s.val.callee = NAMES[rng.below(6)];
        static const int NARGS[] = {0, 0, 1, 3};
        int na = NARGS[rng.below(4)];
        for (int k = 0; k < na; k++) { Val a; a.k = rng.chance(1, 2) ? Val::CONST : Val::VAR; a.c = 1; a.var = "x1"; s.val.args.push_back(a); }
        std::vector<Stmt> &b = rng.chance(1, 2) ? ast.main : ast.defs[rng.below(ast.defs.size())].body;
        b.insert(b.begin() + rng.below(b.size() + 1), s);
      } else {  // rename a callee to something else defined (or not)
        for (auto &r : ast.defs) cb(r.body);
        cb(ast.main);
        if (!calls.empty()) {
          Val *v = calls[rng.below(calls.size())];
          v->callee = rng.chance(1, 2) ? ast.defs[rng.below(ast.defs.size())].name : std::string("nosuch");
        }
      }
    }
    number_statements(ast);
    p.knobs["callgraph_fault"] = 1;
  }

  p.proj.has_ast = true;
  p.proj.ast = ast;
  p.proj.layout = lay;
  p.knobs["alias_locs"] = 1;
  if ((lay.seed >> 31) % 4 == 0) p.knobs["print_first"] = 1;
  render(p.proj);

  if ((mode == "history" || mode == "to_end") && allow_reset && !p.proj.ast.main.empty() && (lay.seed >> 39) % 6 == 0) {
    // the most common session there is: a breakpoint on the first statement of the main program, run, restart, same breakpoint, run
    auto it = p.proj.stmt_line.find(p.proj.ast.main[0].id);
    if (it != p.proj.stmt_line.end()) {
      Op b; b.k = "bploc"; b.s = it->second.file; b.a = it->second.line; b.b = 1;
      Op e; e.k = "exec"; e.a = 20;
      Op r; r.k = (lay.seed >> 43) % 3 == 0 ? "clear" : "reset";
      p.ops.push_back(b); p.ops.push_back(e); p.ops.push_back(r); p.ops.push_back(b); p.ops.push_back(e);
    }
  }
  if (mode == "to_end") {
    random_history(rng, p.ops, (int)rng.range(0, nops / 2), allow_reset, heavy);
    // last segment: no reset, run to the end
    int tail = (int)rng.range(0, 6);
    random_history(rng, p.ops, tail, false, false);
    Op e; e.k = "execall"; e.a = 4000; p.ops.push_back(e);
    Op c; c.k = "clear"; p.ops.push_back(c);
    Op m; m.k = "stepmode"; m.a = 0; p.ops.push_back(m);
    Op e2; e2.k = "execall"; e2.a = 2; p.ops.push_back(e2);
  } else if (mode == "stepping_run") {
    Op m; m.k = "stepmode"; m.a = 1; p.ops.push_back(m);
    if ((lay.seed >> 17) % 3 == 0) {
      // the same stepping run with debugger calls in between that do not move the machine and leave stepping on
      int n = (int)((lay.seed >> 20) % 12) + 2;
      uint64_t x = lay.seed;
      for (int i = 0; i < n; i++) {
        x = x * 6364136223846793005ULL + 1442695040888963407ULL;
        Op e; e.k = "exec"; e.a = 1; p.ops.push_back(e);
        Op o; int w = (int)((x >> 33) % 10);
        if (w < 4) { o.k = "bp"; o.a = (long long)((x >> 40) % 64); o.b = (x >> 50) % 4 != 0; }
        else if (w < 6) { o.k = "bpcur"; o.b = (x >> 50) % 2; }
        else if (w < 8) o.k = "clear";
        else o.k = "inspect";
        p.ops.push_back(o);
      }
    }
    Op e; e.k = "execall"; e.a = thorough ? 6000 : 1500; p.ops.push_back(e);
    Op i; i.k = "inspect"; p.ops.push_back(i);
  } else if (mode == "sweep") {
    Op b; b.k = "bp"; b.a = (long long)rng.below(64); b.b = 1; p.ops.push_back(b);
    Op e; e.k = "execall"; e.a = 2000; p.ops.push_back(e);
    Op st; st.k = "step"; st.a = 3; p.ops.push_back(st);
  } else if (mode == "enum_short") {
    // small scope: ALL histories up to a bounded length over a small alphabet on a tiny program; `sub` is the history
    static const char *A[] = {"step:1", "step:3", "exec:1", "bp:0:1", "bp:0:0", "bp:1:1", "clear", "stepmode:1", "stepmode:0", "reset", "inspect"};
    const long long NA = 11;
    int maxlen = thorough ? 3 : 2;
    long long total = 0, pw = 1;
    for (int l = 1; l <= maxlen; l++) { pw *= NA; total += pw; }
    long long idx = sub % total;
    int len = 1; pw = NA;
    while (idx >= pw) { idx -= pw; pw *= NA; len++; }
    for (int i = 0; i < len; i++) {
      std::string spec = A[idx % NA]; idx /= NA;
      Op o; size_t c1 = spec.find(':');
      o.k = spec.substr(0, c1);
      if (c1 != std::string::npos) { o.a = atoll(spec.c_str() + c1 + 1); size_t c2 = spec.find(':', c1 + 1); if (c2 != std::string::npos) o.b = atoll(spec.c_str() + c2 + 1); }
      p.ops.push_back(o);
    }
    Op e; e.k = "execall"; e.a = 30; p.ops.push_back(e);
    p.knobs["enum_total"] = total;
    p.knobs["golden_steps"] = 600;
  } else if (mode == "reset_enum") {
    // enumerate the reset instant: sub = number of instructions before the reset
    random_history(rng, p.ops, (int)rng.range(0, 3), false, true);
    Op s; s.k = "step"; s.a = sub; if (sub > 0) p.ops.push_back(s);
    Op r; r.k = "reset"; p.ops.push_back(r);
    Op i; i.k = "inspect"; p.ops.push_back(i);
    random_history(rng, p.ops, (int)rng.range(1, 8), true, true);
    p.knobs["enum_reset"] = 1;
  } else {
    random_history(rng, p.ops, nops, allow_reset, heavy);
    if (rng.chance(1, 2)) { Op e; e.k = "execall"; e.a = 50; p.ops.push_back(e); }
  }
  p.note = mode;
  return p;
}

}  // namespace sim
