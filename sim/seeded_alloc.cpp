// The allocator behind a seam (plain build only: the sanitizer builds keep their own allocator).
//
// Which address a block gets is a source of nondeterminism the library can depend on without any data race: a container
// ordered by pointer values iterates in heap-layout order.  With SIM_PLAIN every `operator new` is served from a private
// arena, and *which* free block of the size class is handed out is decided by a PRNG that the simulator seeds per task and
// per phase (alone / interleaved / again / other order).  Same seed, same sequence of requests => same relative order of all
// addresses, in any process; another seed => another layout.  A result that depends on the layout then differs between the
// phases of one plan, and the difference replays.
#ifdef SIM_PLAIN
#include <sys/mman.h>

#include <atomic>
#include <cstdint>
#include <cstdlib>
#include <cstring>
#include <new>

namespace {

constexpr uint32_t MAGIC_ARENA = 0x5eedA110u, MAGIC_MALLOC = 0x5eed0000u;
struct Header { uint32_t magic; uint32_t cls; uint64_t pad; };   // 16 bytes: keeps the 16-byte alignment of what follows
static_assert(sizeof(Header) == 16, "header size");

constexpr int NCLASS = 64;            // 16, 32, ... 1024 bytes
constexpr int POOL = 512;
void *g_pool[NCLASS][POOL];
int g_n[NCLASS];
char *g_arena = nullptr, *g_bump = nullptr, *g_end = nullptr;
std::atomic_flag g_lock = ATOMIC_FLAG_INIT;
bool g_on = false;
uint64_t g_state = 0x9e3779b97f4a7c15ULL;

inline uint64_t next() { g_state ^= g_state << 13; g_state ^= g_state >> 7; g_state ^= g_state << 17; return g_state; }

struct Lock { Lock() { while (g_lock.test_and_set(std::memory_order_acquire)) {} } ~Lock() { g_lock.clear(std::memory_order_release); } };

void *from_malloc(size_t n) {
  Header *h = (Header *)std::malloc(n + sizeof(Header));
  if (!h) return nullptr;
  h->magic = MAGIC_MALLOC; h->cls = 0;
  return h + 1;
}

void *sim_alloc(size_t n) {
  if (n == 0) n = 1;
  size_t cls = (n + 15) / 16 - 1;
  if (!g_on || cls >= (size_t)NCLASS) return from_malloc(n);
  Lock l;
  if (!g_arena) {
    const size_t SZ = (size_t)8 << 30;
    void *m = mmap(nullptr, SZ, PROT_READ | PROT_WRITE, MAP_PRIVATE | MAP_ANONYMOUS | MAP_NORESERVE, -1, 0);
    if (m == MAP_FAILED) { g_on = false; return from_malloc(n); }
    g_arena = g_bump = (char *)m; g_end = g_arena + SZ;
  }
  if (g_n[cls] < 8) {
    // refill: one slab of 16 blocks, carved from the bump pointer (addresses grow with the order of refills)
    size_t bs = (cls + 1) * 16 + sizeof(Header);
    if (g_bump + 16 * bs > g_end) return from_malloc(n);
    for (int i = 0; i < 16 && g_n[cls] < POOL; i++) { g_pool[cls][g_n[cls]++] = g_bump; g_bump += bs; }
  }
  int pick = (int)(next() % (uint64_t)g_n[cls]);
  Header *h = (Header *)g_pool[cls][pick];
  g_pool[cls][pick] = g_pool[cls][--g_n[cls]];
  h->magic = MAGIC_ARENA; h->cls = (uint32_t)cls;
  return h + 1;
}

void sim_free(void *p) {
  if (!p) return;
  Header *h = (Header *)p - 1;
  if (h->magic == MAGIC_MALLOC) { std::free(h); return; }
  if (h->magic != MAGIC_ARENA) return;   // not ours (should not happen): leak rather than corrupt
  Lock l;
  uint32_t cls = h->cls;
  if (cls < (uint32_t)NCLASS && g_n[cls] < POOL) g_pool[cls][g_n[cls]++] = h;
}

}  // namespace

namespace sim {
void seed_heap(uint64_t seed) { Lock l; g_on = true; g_state = seed * 0x9e3779b97f4a7c15ULL + 0x1234567ULL; if (!g_state) g_state = 1; }
bool heap_is_seeded() { return true; }
}  // namespace sim

void *operator new(size_t n) { void *p = sim_alloc(n); if (!p) throw std::bad_alloc(); return p; }
void *operator new[](size_t n) { void *p = sim_alloc(n); if (!p) throw std::bad_alloc(); return p; }
void *operator new(size_t n, const std::nothrow_t &) noexcept { return sim_alloc(n); }
void *operator new[](size_t n, const std::nothrow_t &) noexcept { return sim_alloc(n); }
void operator delete(void *p) noexcept { sim_free(p); }
void operator delete[](void *p) noexcept { sim_free(p); }
void operator delete(void *p, size_t) noexcept { sim_free(p); }
void operator delete[](void *p, size_t) noexcept { sim_free(p); }
void operator delete(void *p, const std::nothrow_t &) noexcept { sim_free(p); }
void operator delete[](void *p, const std::nothrow_t &) noexcept { sim_free(p); }
#else
#include <cstdint>
namespace sim {
void seed_heap(uint64_t) {}
bool heap_is_seeded() { return false; }
}  // namespace sim
#endif
