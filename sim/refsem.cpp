#include "refsem.hpp"

#include <functional>

namespace sim {

namespace {

struct Lower {
  const Ast &ast;
  RProgram &P;
  RRoutine *R = nullptr;
  int cur_def = -1;  // index of the definition being lowered, -1 root
  std::map<std::string, int> labels;
  int hidden = 0;

  int resolve(const std::string &name) {
    int lim = cur_def < 0 ? (int)ast.defs.size() : cur_def;
    int r = -1;
    for (int i = 0; i < lim; i++) if (ast.defs[i].name == name) r = i;
    return r;
  }
  int tmp() { return R->ntmps++; }
  void emit(const RIns &i) { R->code.push_back(i); }
  Opd V(const std::string &n) { Opd o; o.k = Opd::VAR; o.idx = R->var(n); return o; }
  Opd C(long long c) { Opd o; o.k = Opd::CONST; o.c = c; return o; }

  // evaluate v; if dst given the result is stored there, else an operand is returned
  Opd value(const Val &v, const Opd *dst) {
    switch (v.k) {
      case Val::VAR: {
        Opd o = V(v.var);
        if (dst) { RIns i; i.k = RIns::MOV; i.dst = *dst; i.a = o; emit(i); return *dst; }
        return o;
      }
      case Val::CONST: {
        Opd o = C(v.c);
        if (dst) { RIns i; i.k = RIns::MOV; i.dst = *dst; i.a = o; emit(i); return *dst; }
        return o;
      }
      case Val::ADD:
      case Val::SUB: {
        Opd d;
        if (dst) d = *dst; else { d.k = Opd::TMP; d.idx = tmp(); }
        RIns i; i.k = v.k == Val::ADD ? RIns::ADDC : RIns::SUBC; i.dst = d; i.a = V(v.var); i.c = v.c; emit(i);
        return d;
      }
      case Val::BADD: case Val::BMUL: case Val::DBL: {
        // the macro expansion of the infix form: calls of the user programs add / mul (and 2 * x for @ x)
        Val call; call.k = Val::CALL; call.callee = v.k == Val::BADD ? "add" : "mul";
        if (v.k == Val::DBL) { Val two; two.k = Val::CONST; two.c = 2; call.args.push_back(two); call.args.push_back(v.args[0]); }
        else { call.args.push_back(v.args[0]); call.args.push_back(v.args[1]); }
        return value(call, dst);
      }
      case Val::CALL: {
        int callee = resolve(v.callee);
        std::vector<Opd> args;
        for (auto &a : v.args) {
          // the argument's value at this moment: calls and sums go to temporaries; plain variables cannot
          // change before the call (no globals), so naming them is the same as copying them
          args.push_back(value(a, nullptr));
        }
        if (callee < 0) { P.valid = false; P.why_invalid = "RUN " + v.callee + " names no earlier complete definition"; callee = 0; }
        else {
          int n = ast.defs[callee].has_in ? (int)ast.defs[callee].params.size() : 0;
          if (n != (int)args.size()) { P.valid = false; P.why_invalid = "arity of " + v.callee; }
        }
        Opd d;
        if (dst) d = *dst; else { d.k = Opd::TMP; d.idx = tmp(); }
        RIns i; i.k = RIns::CALL; i.dst = d; i.callee = callee; i.args = args; emit(i);
        return d;
      }
    }
    return C(0);
  }

  void loop_on(const Opd &bound_src, const std::vector<Stmt> *body, const std::function<void()> &body_fn, int end_event_id) {
    Opd cnt = V("#cnt" + std::to_string(hidden++));
    { RIns i; i.k = RIns::MOV; i.dst = cnt; i.a = bound_src; emit(i); }
    int L = (int)R->code.size();
    { RIns i; i.k = RIns::JZ; i.a = cnt; emit(i); }
    int b0 = (int)R->code.size();
    if (body) block(*body); else body_fn();
    R->loop_bodies.push_back({b0, (int)R->code.size()});
    { RIns i; i.k = RIns::DECR; i.dst = cnt; emit(i); }
    { RIns i; i.k = RIns::JMP; i.target = L; emit(i); }
    R->code[L].target = (int)R->code.size();
    if (end_event_id >= 0) { RIns e; e.k = RIns::EVENT; e.ev_kind = 2; e.ev_id = end_event_id; emit(e); }
  }

  void stmt(const Stmt &s) {
    int start = (int)R->code.size();
    for (auto &l : s.labels) labels[l] = start;  // duplicate labels: the generator never makes them
    { RIns e; e.k = RIns::EVENT; e.ev_kind = 1; e.ev_id = s.id; emit(e); }
    switch (s.k) {
      case Stmt::ASSIGN: { Opd d = V(s.var); value(s.val, &d); break; }
      case Stmt::LOOP: loop_on(V(s.var), &s.body, nullptr, s.id); break;
      case Stmt::WHILE: {
        int L = (int)R->code.size();
        { RIns i; i.k = RIns::JZ; i.a = V(s.var); emit(i); }
        int b0 = (int)R->code.size();
        block(s.body);
        R->loop_bodies.push_back({b0, (int)R->code.size()});
        { RIns i; i.k = RIns::JMP; i.target = L; emit(i); }
        R->code[L].target = (int)R->code.size();
        { RIns e; e.k = RIns::EVENT; e.ev_kind = 2; e.ev_id = s.id; emit(e); }
        break;
      }
      case Stmt::GOTO: { RIns i; i.k = RIns::JMP; i.goto_label = s.target; emit(i); break; }
      case Stmt::IF: { RIns i; i.k = RIns::JEQ; i.a = V(s.var); i.c = s.c; i.goto_label = s.target; emit(i); break; }
      case Stmt::STOP: { RIns i; i.k = RIns::STOP; emit(i); break; }
      case Stmt::NOP: { RIns i; i.k = RIns::MOV; i.dst = V("_"); i.a = C(0); emit(i); break; }
      case Stmt::SWAP: {
        Opd t = V("#swap" + std::to_string(hidden++));
        { RIns i; i.k = RIns::MOV; i.dst = t; i.a = V(s.var); emit(i); }
        { RIns i; i.k = RIns::MOV; i.dst = V(s.var); i.a = V(s.var2); emit(i); }
        { RIns i; i.k = RIns::MOV; i.dst = V(s.var2); i.a = t; emit(i); }
        break;
      }
      case Stmt::TWICE: {
        // #0 := c ; LOOP #0 DO v := v + 1 END ; LOOP #0 DO LOOP #0 DO v := v + 1 END END   (v grows by c + c*c)
        Opd t = V("#twice" + std::to_string(hidden++));
        Opd v = V(s.var);
        { RIns i; i.k = RIns::MOV; i.dst = t; i.a = C(s.c); emit(i); }
        auto inc = [&]() { RIns i; i.k = RIns::ADDC; i.dst = v; i.a = v; i.c = 1; emit(i); };
        loop_on(t, nullptr, inc, -1);
        loop_on(t, nullptr, [&]() { loop_on(t, nullptr, inc, -1); }, -1);
        break;
      }
      case Stmt::ITE: {
        int h = hidden++;
        Opd a = V("#ite" + std::to_string(h) + "a"), b = V("#ite" + std::to_string(h) + "b"), c = V("#ite" + std::to_string(h) + "c");
        { RIns i; i.k = RIns::MOV; i.dst = a; i.a = C(0); emit(i); }
        { RIns i; i.k = RIns::MOV; i.dst = b; i.a = C(1); emit(i); }
        value(s.val, &c);
        loop_on(c, nullptr, [&]() {
          { RIns i; i.k = RIns::MOV; i.dst = a; i.a = C(1); emit(i); }
          { RIns i; i.k = RIns::MOV; i.dst = b; i.a = C(0); emit(i); }
        }, -1);
        loop_on(a, &s.body, nullptr, -1);
        loop_on(b, &s.body2, nullptr, -1);
        break;
      }
    }
  }
  void block(const std::vector<Stmt> &b) { for (auto &s : b) stmt(s); }

  void patch() {
    for (auto &i : R->code)
      if (!i.goto_label.empty()) {
        auto it = labels.find(i.goto_label);
        if (it == labels.end()) { P.valid = false; P.why_invalid = "label " + i.goto_label; i.target = 0; }
        else i.target = it->second;
      }
  }

  void routine(int idx) {
    const Routine &r = ast.defs[idx];
    RRoutine rr; rr.name = r.name; rr.ast_index = idx;
    P.routines.push_back(rr);
    R = &P.routines.back();
    cur_def = idx; labels.clear();
    if (r.has_in) for (auto &p : r.params) R->var(p);
    R->nparams = r.has_in ? (int)r.params.size() : 0;
    block(r.body);
    R->out_var = R->var(r.has_out ? r.out : std::string("x0"));
    { RIns e; e.k = RIns::EVENT; e.ev_kind = 3; e.ev_id = idx; emit(e); }
    { RIns i; i.k = RIns::RET; i.a.k = Opd::VAR; i.a.idx = R->out_var; emit(i); }
    patch();
  }
  void root() {
    RRoutine rr; rr.name = "#root"; rr.ast_index = -1;
    P.routines.push_back(rr);
    R = &P.routines.back();
    cur_def = -1; labels.clear();
    block(ast.main);
    { RIns i; i.k = RIns::FINISH; emit(i); }
    patch();
    P.root = (int)P.routines.size() - 1;
  }
};

}  // namespace

RProgram lower(const Ast &a) {
  RProgram P;
  P.routines.reserve(a.defs.size() + 1);
  Lower L{a, P};
  for (size_t i = 0; i < a.defs.size(); i++) L.routine((int)i);
  L.root();
  if (a.dup_params) { P.valid = false; P.why_invalid = "repeated parameter name"; }
  return P;
}

namespace {
struct Act { int routine; int pc; std::vector<long long> vars, tmps; Opd ret; };
const long long WORD_MAX = 2147483647LL;
}  // namespace

RefRun ref_run(const RProgram &P, long long max_steps, size_t max_events) {
  RefRun out;
  std::vector<Act> st;
  auto push = [&](int r) {
    Act a; a.routine = r; a.pc = 0;
    a.vars.assign(P.routines[r].vars.size(), 0);
    a.tmps.assign((size_t)P.routines[r].ntmps, 0);
    st.push_back(a);
  };
  push(P.root);
  out.max_depth = 1;
  out.events_complete = true;
  auto rd = [&](Act &a, const Opd &o) -> long long {
    switch (o.k) { case Opd::VAR: return a.vars[o.idx]; case Opd::TMP: return a.tmps[o.idx]; default: return o.c; }
  };
  auto wr = [&](Act &a, const Opd &o, long long v) {
    if (v >= WORD_MAX) out.out_of_range = true;
    if (o.k == Opd::VAR) a.vars[o.idx] = v; else if (o.k == Opd::TMP) a.tmps[o.idx] = v;
  };
  auto user_jump = [&](int routine, int from, int to) {
    if (to <= from) out.jumps_backward++;
    for (auto &r : P.routines[routine].loop_bodies) {
      bool fin = from >= r.first && from < r.second, tin = to >= r.first && to < r.second;
      if (tin && !fin) out.jumps_into_loop++;
      if (fin && !tin) out.jumps_out_of_loop++;
    }
  };
  auto snapshot = [&](std::vector<RefAct> &acts) {
    for (auto &a : st) acts.push_back({a.routine, a.vars});
  };
  for (;;) {
    Act &a = st.back();
    const RIns &i = P.routines[a.routine].code[a.pc];
    if (i.k == RIns::EVENT) {
      if (out.events.size() < max_events) {
        RefEvent e; e.kind = i.ev_kind; e.id = i.ev_id; snapshot(e.acts);
        out.events.push_back(std::move(e));
      } else out.events_complete = false;
      a.pc++;
      continue;
    }
    if (out.steps >= max_steps) break;
    out.steps++;
    switch (i.k) {
      case RIns::MOV: wr(a, i.dst, rd(a, i.a)); a.pc++; break;
      case RIns::ADDC: wr(a, i.dst, rd(a, i.a) + i.c); a.pc++; break;
      case RIns::SUBC: { long long v = rd(a, i.a) - i.c; wr(a, i.dst, v < 0 ? 0 : v); a.pc++; break; }
      case RIns::DECR: { long long v = rd(a, i.dst) - 1; wr(a, i.dst, v < 0 ? 0 : v); a.pc++; break; }
      case RIns::JMP: if (!i.goto_label.empty()) user_jump(a.routine, a.pc, i.target); a.pc = i.target; break;
      case RIns::JZ: if (rd(a, i.a) == 0) a.pc = i.target; else a.pc++; break;
      case RIns::JEQ: if (rd(a, i.a) == i.c) { user_jump(a.routine, a.pc, i.target); a.pc = i.target; } else a.pc++; break;
      case RIns::CALL: {
        std::vector<long long> args;
        for (auto &o : i.args) args.push_back(rd(a, o));
        Opd ret = i.dst;
        a.pc++;
        int callee = i.callee;
        out.calls++;
        push(callee);  // invalidates `a`
        Act &n = st.back();
        n.ret = ret;
        for (size_t k = 0; k < args.size() && k < n.vars.size(); k++) n.vars[k] = args[k];
        if ((int)st.size() > out.max_depth) out.max_depth = (int)st.size();
        break;
      }
      case RIns::RET: {
        long long v = rd(a, i.a);
        Opd ret = a.ret;
        st.pop_back();
        wr(st.back(), ret, v);
        break;
      }
      case RIns::STOP:
        out.steps--;  // halting is not a step
        out.finished = true; out.stopped_by_stop = true;
        if (st.size() > 1) out.stop_in_callee++;
        snapshot(out.final_acts);
        return out;
      case RIns::FINISH:
        out.finished = true;
        out.steps--;  // not a step of the program
        snapshot(out.final_acts);
        return out;
      case RIns::EVENT: break;
    }
  }
  snapshot(out.final_acts);
  return out;
}

}  // namespace sim
