#include "sim.hpp"
namespace sim {
Plan gen_fs_plan(const std::string &, Rng &, long long, const std::string &) { Plan p; p.world = "fs"; return p; }
void exec_fs_plan(const Plan &, Ctx &, Outcome &) {}
}  // namespace sim
