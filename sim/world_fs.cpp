// W2: compilation over a faulty file store (C02, literal clause of C20), include resolution with lost files
// and a retrying provider (C15), and the macro pass loop under a randomised retry budget (C11).
#include <algorithm>
#include <climits>
#include <functional>
#include <sstream>

#include "Compiler/include/compiler.hpp"
#include "Compiler/include/macro.hpp"
#include "Compiler/include/scan.hpp"
#include "VM/include/verif_hook.hpp"
#include "hll.hpp"
#include "sim.hpp"

extern "C" size_t __sanitizer_get_current_allocated_bytes() __attribute__((weak));

using namespace Theo;

namespace sim {

uint64_t allocated_bytes() { return __sanitizer_get_current_allocated_bytes ? (uint64_t)__sanitizer_get_current_allocated_bytes() : 0; }

namespace {

// ------------------------------------------------------------------------------------------------------
// token spans of a source text, for placing faults (not a lexer: whitespace-separated words, with the
// multi-word tokens, quoted names and comments kept whole)
struct Span { size_t a, b; };
std::vector<Span> split_tokens(const std::string &t) {
  std::vector<Span> out;
  size_t i = 0, n = t.size();
  auto is_ws = [](char c) { return c == ' ' || c == '\n' || c == '\t' || c == '\r'; };
  while (i < n) {
    if (is_ws(t[i])) { i++; continue; }
    size_t a = i;
    if (t[i] == '"') { i++; while (i < n && t[i] != '"') i++; if (i < n) i++; }
    else if (t[i] == '/' && i + 1 < n && t[i + 1] == '/') { while (i < n && t[i] != '\n') i++; }
    else { while (i < n && !is_ws(t[i])) i++; }
    out.push_back({a, i});
  }
  // merge "!= 0" and "END DEFINE"
  std::vector<Span> m;
  for (size_t k = 0; k < out.size(); k++) {
    std::string w = t.substr(out[k].a, out[k].b - out[k].a);
    if (k + 1 < out.size() && out[k + 1].a == out[k].b + 1 && t[out[k].b] == ' ') {
      std::string w2 = t.substr(out[k + 1].a, out[k + 1].b - out[k + 1].a);
      std::string u = w, u2 = w2;
      for (auto &c : u) c = (char)toupper((unsigned char)c);
      for (auto &c : u2) c = (char)toupper((unsigned char)c);
      if ((w == "!=" && w2 == "0") || (u == "END" && u2 == "DEFINE")) { m.push_back({out[k].a, out[k + 1].b}); k++; continue; }
    }
    m.push_back(out[k]);
  }
  return m;
}

const char *INSERT_VOCAB[] = {"$0", "$7", "#1", "<P>", "<V>", "<ID>", "<INT>", "<ARGS>", "AS", "END DEFINE", "DEFINE", "PRIORITY", ",", ";", ":", ":=", "END", "RUN", "WITH",
                              "(", ")", "include", "\"x\"", "99999999999999999999", "2147483647", "2147483646", "2147483648", "4294967295", "4294967296", "9223372036854775807", "9223372036854775808", "PROGRAM", "IN", "OUT", "DO", "LOOP", "WHILE", "!= 0", "GOTO", "IF", "=", "THEN",
                              "STOP", "x0", "0", "+", "-", "@", "\x01", "//", "$99999999999", "#99999999999999999999", "__INC__", "__DEC__", "ELSE"};
const int N_INSERT = sizeof(INSERT_VOCAB) / sizeof(INSERT_VOCAB[0]);

// hand-written inputs of the kind no programmer writes on purpose (property C02's own list, and relatives)
const char *RAW_CORPUS[] = {
    "",
    "x := RUN f WITH 1, END",
    "PROGRAM f DO x0 := 4 END x := RUN f WITH END",
    "PROGRAM f DO x0 := 4 END",
    "PROGRAM f IN a, a OUT a DO a := a END; x := RUN f WITH 1, 2 END",
    "PROGRAM f IN DO x := 1 END",
    "PROGRAM f IN a OUT DO x := 1 END",
    "PROGRAM",
    "PROGRAM f",
    "PROGRAM f IN a,",
    "DEFINE",
    "DEFINE foo",
    "DEFINE foo AS",
    "DEFINE foo AS bar",
    "DEFINE PRIORITY",
    "DEFINE PRIORITY 5",
    "DEFINE PRIORITY 99999999999999999999 foo AS x := 1 END DEFINE foo",
    "DEFINE DEFINE AS x := 1 END DEFINE y := 2",
    "DEFINE AS x END DEFINE",
    "DEFINE foo DEFINE AS x := 1 END DEFINE foo",
    "DEFINE foo AS AS x := 1 END DEFINE foo",
    "DEFINE foo <P> AS $0 END DEFINE foo x := 1",
    "DEFINE foo <ARGS> AS x := RUN f WITH $0 END END DEFINE",
    "DEFINE foo <ID> AS $1 := 1 END DEFINE foo x",
    "DEFINE foo <ID> AS $99999999999999999999 := 1 END DEFINE foo x",
    "DEFINE foo <ID> AS $4294967296 := 1 END DEFINE foo x",
    "DEFINE foo AS #0 := 1 END DEFINE foo",
    "DEFINE foo AS END DEFINE foo ; x := 1",
    "$0 := 1",
    "#0 := 1",
    "<P>",
    "x := <V>",
    "x := 99999999999999999999",
    "x := 2147483647",
    "x := 2147483646; x := x + 2147483646",
    "IF x = 99999999999 THEN GOTO l; l: x := 1",
    "x := y + 99999999999999",
    "x := y - 2147483648",
    "x := y + 2147483648",
    "x := y - 4294967296",
    "x := y - 2147483647",
    "x := y + 2147483647; x := x + 2147483647",
    "x := 2147483648",
    "IF x = 2147483648 THEN GOTO l; l: x := 1",
    "DEFINE PRIORITY 2147483648 foo AS x := 1 END DEFINE foo",
    "GOTO nowhere",
    "l: l: x := 1; GOTO l",
    "x := 1;",
    "x := 1;;",
    ";",
    "END",
    "LOOP x DO",
    "LOOP x DO END",
    "WHILE x != 0 DO x := x - 1",
    "x := RUN",
    "x := RUN f",
    "x := RUN f WITH",
    "x := RUN f WITH 1",
    "x := RUN nosuch WITH 1 END",
    "x := 1 y := 2",
    "x := 1 PROGRAM f IN a DO a := 1 END",
    "LOOP x DO PROGRAM f DO x0 := 1",
    "LOOP x DO PROGRAM f DO x0 := 1 END",
    "WHILE x != 0 DO PROGRAM f IN a DO a := 1 END x := 1",
    "PROGRAM f DO PROGRAM g DO x0 := 1 END END x := RUN g WITH END",
    "LOOP x DO DEFINE a AS x := 1 END DEFINE a",
    "LOOP x DO include \"main.theo\"",
    "x := 1 ; LOOP x DO y := 1 ; PROGRAM",
    "LOOP x DO y := 1 ; PROGRAM f",
    "PROGRAM f DO LOOP x0 DO PROGRAM",
    "x : = 1",
    "include",
    "include x",
    "include \"",
    "include \"nosuch\"",
    "include \"main.theo\"",
    "x := 1 include",
    "STOP STOP",
    "x := (1)",
    "x := 1 // comment without newline",
    "\xff\xfe\x00garbage",
    "x := RUN __INC__ WITH x, 1 END",
    "x := RUN __INC__ WITH 1, x END",
    "x := RUN __DEC__ WITH x END",
    "PROGRAM __INC__ IN a, b DO x0 := 7 END x := x + 1",
    "DEFINE x := <V> AS x := 1 END DEFINE x := 5",
    "DEFINE <ID> AS x := 1 END DEFINE y",
    "DEFINE <P> ; AS x := 1 END DEFINE y := 1 ; z := 2",
    "DEFINE a <ARGS> , AS x := 1 END DEFINE a 1 , 2 ,",
    "Define a As a a End Define a",
    "DEFINE PRIO 1000000 skip AS skip END DEFINE skip",
    "DEFINE PRIO 2000000 skip AS skip END DEFINE skip",
    "DEFINE PRIO 2147483646 a AS b END DEFINE DEFINE PRIO 1000000 b AS a END DEFINE a",
    "DEFINE PRIO 999999 skip AS skip END DEFINE x := skip + 1",
    "DEFINE PRIO 1000001 <ID> + <INT> AS $0 + $1 END DEFINE x := y + 1",
    "DEFINE PRIO 1 PRIO 2 a AS x := 1 END DEFINE a",
    "DEFINE PRIO a AS x := 1 END DEFINE a",
    "DEFINE a <V> AS $0 END DEFINE x := a 1",
    "DEFINE a <ID> AS $0 END DEFINE a x := 1",
    "DEFINE <V> AS x := $0 END DEFINE 5",
    "DEFINE <INT> AS 7 END DEFINE x := 5",
    "DEFINE a AS END DEFINE a ; x := 1",
    "DEFINE a AS $0 END DEFINE a",
    "DEFINE a <ID> AS #0 END DEFINE a x",
    "DEFINE a <ID> <ID> AS $1 := $0 ; $0 := $1 END DEFINE a x y ; a y x",
    "DEFINE a AS x := 1 END DEFINE DEFINE a AS x := 2 END DEFINE a",
    "DEFINE a AS DEFINE b AS x := 1 END DEFINE END DEFINE a ; b",
    "DEFINE END AS x := 1 END DEFINE",
    "DEFINE ; AS ; ; END DEFINE x := 1 ; y := 2",
    "DEFINE x := 1 AS x := 1 END DEFINE x := 1",
    "DEFINE LOOP AS WHILE END DEFINE LOOP x DO x := x - 1 END",
    "DEFINE a <P> b AS $0 ; $0 END DEFINE a x := x + 1 b",
    "DEFINE a <ARGS> b AS y := RUN f WITH $0 , $0 END END DEFINE PROGRAM f IN p , q DO x0 := p END a 1 b",
    "DEFINE a ( <V> ) AS $0 END DEFINE x := a ( a ( a ( 1 ) ) )",
    "Def a As x := 1 Enddef a",
    "define a as x := 1 end define a",
    "DEFINE a AS x := 1 END  DEFINE a",
    "include \"main.theo\" x := 1",
    "x := 1 include \"main.theo\"",
    "x := 1 include \"nosuch\" ; y := 2 include \"nosuch\"",
    "x := 1 include",
};
const int N_RAW = sizeof(RAW_CORPUS) / sizeof(RAW_CORPUS[0]);

std::vector<std::string> file_names(const std::map<std::string, std::string> &files) {
  std::vector<std::string> n;
  for (auto &kv : files) n.push_back(kv.first);
  return n;
}

int count_lines(const std::string &s) { int n = 1; for (char c : s) if (c == '\n') n++; return n; }

size_t count_word_ci(const std::string &hay, const char *needle) {
  size_t n = 0, L = strlen(needle);
  for (size_t i = 0; i + L <= hay.size(); i++) {
    bool ok = true;
    for (size_t k = 0; k < L && ok; k++) if (tolower((unsigned char)hay[i + k]) != needle[k]) ok = false;
    if (ok) n++;
  }
  return n;
}

// ------------------------------------------------------------------------------------------------------
// work monitor: counts hook events per site (fixed arrays, no allocation) and enforces per-stage bounds
struct WorkMonitor : HookSink {
  long long cnt[20] = {0};
  long long bytes = 0, ndefs_bound = 2, budget = 1024;
  bool has_includes = false;   // a file (the hidden standard-macro file too) may then be included several times: its definitions count once per inclusion
  // number of definitions the stream can hold: what the text shows, or - with includes - what the scanned tokens allow (a definition is at least 4 tokens)
  long long defs_eff() const { return has_includes ? std::max(ndefs_bound, scan_tokens / 4 + 2) : ndefs_bound; }
  long long scan_limit = 0;
  long long detect_in_pass = 0, pass_len = 0, lr_in_start = 0, lr_limit = 0, table_events = 0;
  long long final_len = -1, max_len = 0, scan_tokens = 0;
  int exceeded = 0;          // site whose bound was exceeded
  long long exceeded_count = 0, exceeded_limit = 0;
  bool growth_abandoned = false;
  bool slow_abandoned = false;   // legitimately bounded but too slow to be worth simulating (e.g. cubic macro nesting)
  long long total_events = 0, total_cap = 60000000;
  long long lr_total = 0, lr_total_cap = (long long)4e18;   // LR driver actions in one compile (about 13 us each under the sanitizers)
  long long pass_cost = 0, pass_cost_cap = 50000000;   // sum over passes of (stream length)^2: proxy for the copying a pass does
  bool enforce = true;

  void over(int site, long long c, long long lim) {
    if (!enforce) return;
    exceeded = site; exceeded_count = c; exceeded_limit = lim;
    throw SimAbort();
  }
  void on_point(int site, long a, long b) override {
    using namespace Theo::verif;
    if (site < 20) cnt[site]++;
    if (++total_events > total_cap && enforce) { slow_abandoned = true; throw SimAbort(); }
    switch (site) {
      case SCAN_TOKEN: scan_tokens = b; if (cnt[site] > scan_limit) over(site, cnt[site], scan_limit); break;
      case MACRO_EXTRACT: { long long lim = 16 * (scan_tokens + 16); if (cnt[site] > lim) over(site, cnt[site], lim); break; }
      case MACRO_PASS:
        if (cnt[site] > budget) over(site, cnt[site], budget);
        detect_in_pass = 0; pass_len = b; if (b > max_len) max_len = b;
        pass_cost += (long long)b * b;
        if (pass_cost > pass_cost_cap && enforce) { slow_abandoned = true; throw SimAbort(); }
        if (b > 64 * (scan_tokens + 16) + 100000) { growth_abandoned = true; throw SimAbort(); }
        break;
      case MACRO_PASS_END: final_len = a; if (a > max_len) max_len = a; break;
      case MACRO_DETECT: {
        detect_in_pass++;
        long long lim = (defs_eff() + 4) * (pass_len + 2);
        if (detect_in_pass > lim) over(site, detect_in_pass, lim);
        lr_in_start = 0; lr_limit = 32 * (b - a + 16);
        break;
      }
      case LR_ACTION:
        lr_in_start++; if (lr_in_start > lr_limit && lr_limit > 0) over(site, lr_in_start, lr_limit);
        if (++lr_total > lr_total_cap && enforce) { slow_abandoned = true; throw SimAbort(); }
        break;
      case LR_FIRST_ROUND: case LR_HULL_ROUND: case LR_ELEMENTS: {
        table_events++;
        long long lim = (defs_eff() + 4) * 2 * (4000000LL + 20000LL * bytes);
        if (table_events > lim) over(site, table_events, lim);
        break;
      }
      case PARSE_P: case PARSE_TRAILING: {
        long long L = final_len >= 0 ? final_len : max_len;
        long long lim = 8 * (L + 32);
        if (cnt[PARSE_P] + cnt[PARSE_TRAILING] > lim) over(site, cnt[PARSE_P] + cnt[PARSE_TRAILING], lim);
        break;
      }
      case GEN_NODE: {
        long long L = final_len >= 0 ? final_len : max_len;
        long long lim = 64 * (L + 32);
        if (cnt[site] > lim) over(site, cnt[site], lim);
        break;
      }
      default: break;
    }
  }
  long long total() const { long long t = 0; for (auto c : cnt) t += c; return t; }
};

const char *site_name(int s) {
  static const char *n[] = {"?", "scan loop", "macro pass loop", "macro pass end", "macro detection", "LR driver", "FIRST-set fixpoint", "closure fixpoint", "LR state construction",
                            "statement parser", "?", "?", "trailing-input loop", "code generator", "VM", "macro extraction"};
  return s >= 0 && s < 16 ? n[s] : "?";
}

// result of one monitored compile, plain data only
struct CompileSummary {
  bool returned = false, ok = false;
  int nerrors = 0, nrequests = 0;
  int bad_error = 0;      // 1 empty message, 2 unknown file, 3 line outside file
  char bad_detail[200] = {0};
  bool reached_max_passes = false;
  long long code_size = 0;
};

struct FsWorld {
  const Plan &plan;
  Ctx &ctx;
  Outcome &out;
  FsWorld(const Plan &p, Ctx &c, Outcome &o) : plan(p), ctx(c), out(o) {}
  long long knob(const char *k, long long d) const { auto it = plan.knobs.find(k); return it == plan.knobs.end() ? d : it->second; }

  static void warm_up() {
    static bool done = false;
    if (done) return;
    done = true;
    std::map<std::string, std::string> f = {{"m", "include \"n\" PROGRAM f IN a OUT b DO b := a + 1 END DEFINE sw <ID> AS #0 := $0 END DEFINE x := RUN f WITH 2 END; sw x; IF x = 1 THEN GOTO l; l: LOOP x DO x := x - 1 END; WHILE x != 0 DO STOP END; y := 99999999999 z"}, {"n", "k := 1;"}};
    { CodegenResult r = Theo::compile(f, "m"); (void)r; }
    { std::string s = std::to_string(12345) + std::to_string(-1); (void)s; }
  }

  // ---------------------------------------------------------------- faults on the store
  std::map<std::string, std::string> delivered;
  std::string main_name;
  bool main_lost = false;
  int faults_fired = 0;

  void apply_faults() {
    delivered = plan.proj.files;
    main_name = plan.proj.main;
    for (const Op &op : plan.ops) {
      std::vector<std::string> names = file_names(delivered);
      auto pick_file = [&](long long i) -> std::string * { if (names.empty()) return nullptr; return &delivered[names[(size_t)(i < 0 ? -i : i) % names.size()]]; };
      auto fired = [&](const char *kind) { ctx.stats.inc(std::string("fault_") + kind); faults_fired++; };
      if (op.k == "file_lost") {
        if (names.empty()) continue;
        std::string n = names[(size_t)op.a % names.size()];
        if (n == main_name) { fired("main_lost"); main_lost = true; } else fired("file_lost");
        delivered.erase(n);
      } else if (op.k == "main_lost") { if (delivered.erase(main_name)) { fired("main_lost"); main_lost = true; } }
      else if (op.k == "file_empty") { if (auto f = pick_file(op.a)) { f->clear(); fired("file_empty"); } }
      else if (op.k == "trunc_byte") { if (auto f = pick_file(op.a)) { f->resize((size_t)op.b % (f->size() + 1)); fired("truncate_at_byte"); } }
      else if (op.k == "trunc_tok") {
        if (auto f = pick_file(op.a)) { auto sp = split_tokens(*f); if (!sp.empty()) { f->resize(sp[(size_t)op.b % sp.size()].a); fired("truncate_at_token"); } }
      } else if (op.k == "byte_flip") {
        if (auto f = pick_file(op.a)) if (!f->empty()) { size_t i = (size_t)op.b % f->size(); (*f)[i] = op.c >= 256 ? (char)((*f)[i] ^ (1 << (op.c & 7))) : (char)op.c; fired("byte_flip"); }
      } else if (op.k == "tok_drop" || op.k == "tok_dup" || op.k == "tok_swap" || op.k == "tok_insert" || op.k == "tok_replace") {
        auto f = pick_file(op.a);
        if (!f) continue;
        auto sp = split_tokens(*f);
        if (sp.empty()) { if (op.k == "tok_insert") { *f = op.s; fired("token_insert"); } continue; }
        size_t i = (size_t)op.b % sp.size();
        std::string w = f->substr(sp[i].a, sp[i].b - sp[i].a);
        if (op.k == "tok_drop") { f->erase(sp[i].a, sp[i].b - sp[i].a); fired("token_drop"); }
        else if (op.k == "tok_dup") { f->insert(sp[i].b, " " + w); fired("token_dup"); }
        else if (op.k == "tok_swap") {
          if (i + 1 >= sp.size()) continue;
          std::string w2 = f->substr(sp[i + 1].a, sp[i + 1].b - sp[i + 1].a);
          std::string mid = f->substr(sp[i].b, sp[i + 1].a - sp[i].b);
          f->replace(sp[i].a, sp[i + 1].b - sp[i].a, w2 + mid + w);
          fired("token_swap");
        } else if (op.k == "tok_insert") { f->insert(sp[i].a, op.s + " "); fired("token_insert"); }
        else { f->replace(sp[i].a, sp[i].b - sp[i].a, op.s); fired("token_replace"); }
      } else if (op.k == "lit_inflate") {
        // the a-th integer literal of the program text (as the printer marked it) gets b digits
        const Project &p = plan.proj;
        std::vector<const PTok *> lits;
        bool in_def = false, after_as = false;
        // a literal in the body of a definition counts when the macro is used somewhere (its key word occurs outside every
        // definition): the expansion then carries the literal into the program
        std::set<std::string> used_words;
        if (knob("body_lits", 0) && p.has_ast) {
          std::function<void(const Val &)> uv = [&](const Val &v) { if (v.k == Val::DBL) used_words.insert("@"); for (auto &a : v.args) uv(a); };
          std::function<void(const std::vector<Stmt> &)> ub = [&](const std::vector<Stmt> &b) {
            for (auto &st : b) {
              if (st.k == Stmt::NOP) used_words.insert("NOP");
              if (st.k == Stmt::TWICE) used_words.insert("TWICE");
              if (st.k == Stmt::ITE) used_words.insert("IF");
              uv(st.val); ub(st.body); ub(st.body2);
            }
          };
          for (auto &r : p.ast.defs) ub(r.body);
          ub(p.ast.main);
        }
        std::string def_key;
        for (auto &t : p.toks) {
          std::string u = t.text; for (auto &c : u) c = (char)toupper((unsigned char)c);
          if (u == "DEFINE" || u == "DEF") { in_def = true; after_as = false; def_key.clear(); }
          else if (in_def && !after_as && u == "AS") after_as = true;
          else if (in_def && !after_as && def_key.empty() && u != "PRIORITY" && u != "PRIO" && t.kind != 1 && t.text[0] != '<') def_key = u;
          bool prio_or_slot = false;
          if (t.kind == 1 && in_def && &t > &p.toks[0]) { std::string pu = (&t - 1)->text; for (auto &c : pu) c = (char)toupper((unsigned char)c); prio_or_slot = pu == "PRIORITY" || pu == "PRIO"; }
          bool used_body = in_def && after_as && !def_key.empty() && used_words.count(def_key) > 0;
          if (t.kind == 1 && (!in_def || prio_or_slot || used_body)) { lits.push_back(&t); }
          if (u == "END DEFINE" || u == "ENDDEF") in_def = false;
        }
        if (lits.empty()) continue;
        const PTok *t = lits[(size_t)op.a % lits.size()];
        // find that token in its file by (line, occurrence order): re-split the file and match the k-th token with equal text on that line
        auto it = delivered.find(t->loc.file);
        if (it == delivered.end()) continue;
        std::string &f = it->second;
        auto sp = split_tokens(f);
        int line = 1; size_t pos = 0; int seen_before = 0;
        for (auto &q : p.toks) { if (&q == t) break; if (q.loc == t->loc && q.text == t->text) seen_before++; }
        for (auto &s : sp) {
          while (pos < s.a) { if (f[pos] == '\n') line++; pos++; }
          if (line == t->loc.line && f.substr(s.a, s.b - s.a) == t->text) {
            if (seen_before-- == 0) {
              std::string big;
              int nd = (int)std::max<long long>(10, std::min<long long>(40, op.b));
              // values at the edges of the word and of wider accumulators: a conversion that wraps must still reject them
              static const char *EDGE[] = {"4294967296", "4294967301", "9223372036854775807", "9223372036854775808", "18446744073709551615", "18446744073709551616", "18446744073709551621",
                                           "36893488147419103232", "340282366920938463463374607431768211456", "10000000000000000000000000000000000000000000000000000000000000000", "1267650600228229401496703205376", "4294967295"};
              if (nd == 10) big = op.c ? "2147483647" : "2147483648";
              else if (nd % 3 == 0) big = EDGE[(size_t)(op.a / 7 + nd) % 12];
              else { big = "9"; for (int k = 1; k < nd; k++) big += (char)('0' + (k * 7) % 10); }
              f.replace(s.a, s.b - s.a, big);
              if (big == "2147483647") { fired("literal_at_word_limit"); break; }   // 2^31-1 itself: accepting or rejecting it are both within the property
              fired("literal_inflate");
              break;
            }
          }
        }
      } else if (op.k == "slot_inflate") {
        // a "$n" of some macro body gets an index that does not fit the word but is congruent to n modulo 2^32 / 2^64
        std::vector<std::string> names2 = file_names(delivered);
        std::vector<std::pair<std::string, Span>> slots;
        for (auto &n : names2) { auto sp = split_tokens(delivered[n]); for (auto &q : sp) { const std::string &f = delivered[n]; if (q.b - q.a >= 2 && f[q.a] == '$' && isdigit((unsigned char)f[q.a + 1])) slots.push_back({n, q}); } }
        if (slots.empty()) continue;
        auto &sl = slots[(size_t)op.a % slots.size()];
        std::string &f = delivered[sl.first];
        long long k = atoll(f.substr(sl.second.a + 1, sl.second.b - sl.second.a - 1).c_str());
        static const char *BASE[] = {"4294967296", "8589934592", "18446744073709551616", "2147483647", "99999999999999999999"};
        std::string big;
        size_t which = (size_t)op.b % 5;
        if (which == 0) big = std::to_string(4294967296LL + k); else if (which == 1) big = std::to_string(8589934592LL + k);
        else if (which == 2) { big = "1844674407370955161"; big += std::to_string(6 + k % 4); } else big = BASE[which];
        f.replace(sl.second.a + 1, sl.second.b - sl.second.a - 1, big);
        fired("literal_inflate");
      } else if (op.k == "raw") {
        if (auto f = pick_file(op.a)) { *f = op.s; fired("raw_corpus_input"); }
      } else if (op.k == "rename_main") {
        auto it = delivered.find(main_name);
        if (it != delivered.end()) { std::string c = it->second; delivered.erase(it); delivered[op.s] = c; main_name = op.s; fired("odd_main_name"); }
      }
    }
  }

  // ---------------------------------------------------------------- one monitored compile
  CompileSummary monitored_compile(const std::map<std::string, std::string> &files, const std::string &main, WorkMonitor &mon, bool measure_leak, bool &leaked, long long &leak_bytes) {
    CompileSummary s;
    long long bytes = 200;
    size_t defs = 2;
    for (auto &kv : files) { bytes += (long long)kv.second.size(); defs += count_word_ci(kv.second, "def"); }
    mon.bytes = bytes; mon.ndefs_bound = (long long)defs; mon.budget = 1024;
    for (auto &kv : files) if (count_word_ci(kv.second, "include") > 0) mon.has_includes = true;
    // of 11 600 quick C02 runs 49 needed more than 300 000 LR actions and 48 of those ended abandoned at the other caps anyway
    if (mon.lr_total_cap > 400000) mon.lr_total_cap = 400000;
    mon.scan_limit = (bytes + 64) * 64;
    leaked = false; leak_bytes = 0;
    uint64_t before = measure_leak ? allocated_bytes() : 0;
    bool aborted = false;
    {
      HookGuard hg(&mon);
      set_phase(PH_COMPILE);
      try {
        CodegenResult r = Theo::compile(files, main);
        set_phase(PH_HARNESS);
        s.returned = true; s.ok = r.generated_correctly; s.nerrors = (int)r.errors.size(); s.nrequests = (int)r.file_requests.size();
        s.code_size = (long long)r.code.code.size();
        for (auto &e : r.errors) {
          if (s.bad_error) continue;
          if (e.message.empty()) { s.bad_error = 1; snprintf(s.bad_detail, sizeof s.bad_detail, "error with an empty message at %.60s:%d", e.file.c_str(), e.line); continue; }
          if (e.file == "-") continue;
          if (e.file == "__standards__" && !files.count("__standards__")) { if (e.line < 1) { s.bad_error = 3; snprintf(s.bad_detail, sizeof s.bad_detail, "line %d in the standard-macro file: %.80s", e.line, e.message.c_str()); } continue; }
          auto it = files.find(e.file);
          if (it == files.end()) { s.bad_error = 2; snprintf(s.bad_detail, sizeof s.bad_detail, "error located in '%.50s' (line %d), which was not supplied: %.80s", e.file.c_str(), e.line, e.message.c_str()); continue; }
          if (e.line < 1 || e.line > count_lines(it->second)) { s.bad_error = 3; snprintf(s.bad_detail, sizeof s.bad_detail, "error at %.50s:%d but the file has %d lines: %.80s", e.file.c_str(), e.line, count_lines(it->second), e.message.c_str()); }
        }
      } catch (SimAbort &) { aborted = true; set_phase(PH_HARNESS); }
    }
    if (measure_leak && !aborted && before) {
      uint64_t after = allocated_bytes();
      if (after != before) { leaked = true; leak_bytes = (long long)after - (long long)before; }
    }
    return s;
  }

  void judge_totality(const CompileSummary &s, const WorkMonitor &mon, bool leaked, long long leak_bytes, const char *what) {
    if (mon.growth_abandoned) { ctx.stats.inc("skipped_growth"); return; }
    if (mon.slow_abandoned) { ctx.stats.inc("skipped_slow"); return; }
    if (mon.exceeded) {
      ctx.check(false, "C02", "bounded_work", std::string(what) + ": the " + site_name(mon.exceeded) + " took " + std::to_string(mon.exceeded_count) + " steps, bound for this input " + std::to_string(mon.exceeded_limit));
      return;
    }
    if (!s.returned) return;
    if (leaked) ctx.check(false, "C02", "no_leak", std::string(what) + ": " + std::to_string(leak_bytes) + " bytes still allocated after the result was dropped");
    if (s.ok && s.nerrors > 0) ctx.check(false, "C02", "correct_xor_errors", std::string(what) + ": marked correct with " + std::to_string(s.nerrors) + " errors");
    if (!s.ok && s.nerrors == 0) ctx.check(false, "C02", "correct_xor_errors", std::string(what) + ": marked incorrect without any error");
    if (s.bad_error) ctx.check(false, "C02", "error_location_valid", std::string(what) + ": " + s.bad_detail);
  }

  // ---------------------------------------------------------------- C02 / C20-literal run
  void run_fs() {
    warm_up();
    apply_faults();
    std::string brief;
    for (auto &kv : delivered) brief += "[" + kv.first + "]" + kv.second + "\x1e";
    ctx.evs("delivered", brief);
    ctx.evs("main", main_name);
    WorkMonitor mon;
    bool leaked; long long leak_bytes;
    CompileSummary s = monitored_compile(delivered, main_name, mon, true, leaked, leak_bytes);
    ctx.ev("compiled", s.returned, s.ok, s.nerrors);
    ctx.ev("work", mon.total(), mon.cnt[Theo::verif::MACRO_PASS], mon.final_len);
    ctx.sim_steps += mon.total();
    ctx.stats.max("max_table_construction_rounds", mon.table_events);
    ctx.stats.max("max_parser_steps_per_1000_final_tokens", mon.final_len > 0 ? 1000 * (mon.cnt[Theo::verif::PARSE_P] + mon.cnt[Theo::verif::PARSE_TRAILING]) / mon.final_len : 0);
    ctx.stats.max("max_generator_steps_per_1000_final_tokens", mon.final_len > 0 ? 1000 * mon.cnt[Theo::verif::GEN_NODE] / mon.final_len : 0);
    ctx.stats.max("max_extract_steps_per_1000_tokens", mon.scan_tokens > 0 ? 1000 * mon.cnt[Theo::verif::MACRO_EXTRACT] / mon.scan_tokens : 0);
    judge_totality(s, mon, leaked, leak_bytes, "compile");
    if (s.returned) {
      ctx.stats.inc(s.ok ? "compile_ok" : "compile_rejected");
      if (mon.cnt[Theo::verif::MACRO_PASS] >= 1024) ctx.stats.inc("probe_budget_exhausted");
      if (main_lost) ctx.stats.inc("probe_main_file_lost");
    }
    // literal clause of C20
    if (ctx.stats.c.count("fault_literal_inflate") && s.returned) {
      if (s.ok || s.nerrors == 0) ctx.check(false, "C20", "oversized_literal_rejected", "a literal that does not fit the word was accepted (" + std::to_string(s.nerrors) + " errors)");
      ctx.stats.inc("c20_inflated_literals_checked");
    }
    if (faults_fired == 0 && s.returned && !s.ok && plan.proj.has_ast && !plan.proj.ast.dup_params) ctx.stats.inc("rejected_valid");
    out.nontrivial = s.returned && (faults_fired > 0);
    Hasher h; h.add_str(brief); h.add_str(main_name);
    out.state_sig = h.get();
    g_hll_states.add(out.state_sig);
  }

  // ---------------------------------------------------------------- C15
  struct Item { int kind; int marker; std::string target; };  // 0 marker, 1 include, 2 dangling include
  std::map<std::string, std::vector<Item>> items;
  std::vector<std::string> order;   // file names in declaration order; order[0] is the main file

  void build_topology() {
    // ops: {k:"file", s:name} starts a file; {k:"m", a:id}; {k:"inc", s:target}; {k:"dangle"}; faults: {k:"lost", s:name}
    std::string cur;
    for (const Op &op : plan.ops) {
      if (op.k == "file") { cur = op.s; if (!items.count(cur)) { items[cur] = {}; order.push_back(cur); } }
      else if (cur.empty() && op.k != "lost") continue;
      else if (op.k == "m") items[cur].push_back({0, (int)op.a, ""});
      else if (op.k == "inc") items[cur].push_back({1, 0, op.s});
      else if (op.k == "dangle") items[cur].push_back({2, 0, ""});
      else if (op.k == "junk") items[cur].push_back({3, (int)op.a, ""});
    }
    // what happens to the token right after an include without a name is not specified; keep directives away
    // from that position by putting a marker in between (markers 9000+ exist only for this)
    int extra = 9000;
    for (auto &kv : items)
      for (size_t i = 0; i + 1 < kv.second.size(); i++)
        if (kv.second[i].kind == 2 && kv.second[i + 1].kind != 0) { kv.second.insert(kv.second.begin() + i + 1, Item{0, extra++, ""}); }
  }
  std::string file_text(const std::string &name) {
    std::string t;
    const auto &v = items[name];
    for (size_t i = 0; i < v.size(); i++) {
      if (v[i].kind == 0) t += "m" + std::to_string(v[i].marker) + " := " + std::to_string(v[i].marker) + " ;";
      else if (v[i].kind == 1) t += "include \"" + v[i].target + "\"";
      else if (v[i].kind == 3) {
        // a line with an error of another stage (macro extraction, parser): it must not change what the include resolution reports
        static const char *JUNK[] = {"DEFINE AS x0 := 1 END DEFINE", "DEFINE DEFINE q AS x0 := 1 END DEFINE", "DEFINE q AS AS END DEFINE", "DEFINE PRIO 99999999999 w AS x0 := 1 END DEFINE",
                                     "x0 := ;", "DEFINE w <ID> AS $7 := 1 END DEFINE"};
        t += JUNK[(size_t)v[i].marker % 6];
      }
      else t += "include";
      t += "\n";
    }
    return t;
  }

  struct MErr { int type; std::string file; int line_lo, line_hi; std::string request; };
  struct Model {
    std::vector<std::pair<int, Loc>> markers;
    std::vector<MErr> errors;
    std::set<std::string> requests;
    long long tokens = 0;
    bool has_dangling = false, recursive_seen = false, repeated_seq = false;
  };

  void model_walk(const std::string &f, const std::set<std::string> &present, std::vector<std::string> &stack, Model &m, int depth) {
    const auto &v = items[f];
    m.tokens += 2;
    std::string last_inc;
    for (size_t i = 0; i < v.size(); i++) {
      int line = (int)i + 1;
      if (v[i].kind == 0) { m.markers.push_back({v[i].marker, {f, line}}); m.tokens += 4; last_inc.clear(); }
      else if (v[i].kind == 3) { m.tokens += 12; last_inc.clear(); }
      else if (v[i].kind == 2) {
        m.has_dangling = true;
        m.tokens += 2;
        m.errors.push_back({ParseError::EXPECTED_FILENAME, f, line, i + 1 < v.size() ? line + 1 : line, ""});
        last_inc.clear();
      } else {
        m.tokens += 2;
        const std::string &t = v[i].target;
        if (!present.count(t) && hidden_supplied_by_compile && t == "__standards__") { /* compile() supplies the built-in text: present, no directives in it */ }
        else if (!present.count(t)) { m.errors.push_back({ParseError::FILE_NOT_FOUND, f, line, line, t}); m.requests.insert(t); }
        else if (std::find(stack.begin(), stack.end(), t) != stack.end()) { m.errors.push_back({ParseError::RECURSIVE_INCLUDE, f, line, line, ""}); m.recursive_seen = true; }
        else if (depth < 40) {
          if (last_inc == t) m.repeated_seq = true;
          stack.push_back(t);
          model_walk(t, present, stack, m, depth + 1);
          stack.pop_back();
        }
        last_inc = t;
      }
    }
  }
  // `through_compile`: compile() puts an include of the hidden standard-macro file in front of the main file's first token
  // (same line) and supplies that file itself unless the caller supplied one of that name
  bool hidden_supplied_by_compile = false;
  Model model(const std::set<std::string> &present, const std::string &main, bool through_compile = false) {
    Model m;
    hidden_supplied_by_compile = through_compile;
    if (!present.count(main)) { m.errors.push_back({ParseError::MAIN_FILE_NOT_FOUND, "-", -1, -1, main}); m.requests.insert(main); return m; }
    std::vector<std::string> stack = {main};
    const std::string H = "__standards__";
    if (through_compile && present.count(H) && items.count(H) && H != main) {
      // the user's file of that name is what the hidden include resolves to
      stack.push_back(H);
      model_walk(H, present, stack, m, 1);
      stack.pop_back();
    }
    model_walk(main, present, stack, m, 0);
    return m;
  }

  static const char *perr_name(int t) {
    switch (t) { case ParseError::MAIN_FILE_NOT_FOUND: return "MAIN_FILE_NOT_FOUND"; case ParseError::EXPECTED_FILENAME: return "EXPECTED_FILENAME"; case ParseError::FILE_NOT_FOUND: return "FILE_NOT_FOUND"; case ParseError::RECURSIVE_INCLUDE: return "RECURSIVE_INCLUDE"; default: return "other"; }
  }

  void run_incl() {
    warm_up();
    build_topology();
    if (order.empty()) return;
    std::string main = order[0];
    std::map<std::string, std::string> pristine;
    for (auto &n : order) pristine[n] = file_text(n);
    std::set<std::string> lost;
    for (const Op &op : plan.ops) if (op.k == "lost" && pristine.count(op.s)) lost.insert(op.s);
    std::map<std::string, std::string> store;
    std::set<std::string> present;
    for (auto &kv : pristine) if (!lost.count(kv.first)) { store[kv.first] = kv.second; present.insert(kv.first); }
    for (auto &l : lost) ctx.stats.inc(l == main ? "fault_main_lost" : "fault_file_lost");
    std::string brief;
    for (auto &kv : store) brief += "[" + kv.first + "]" + kv.second + "\x1e";
    ctx.evs("store", brief);
    Hasher gh; gh.add_str(brief); out.state_sig = gh.get(); g_hll_states.add(out.state_sig);

    Model m = model(present, main);
    if (m.has_dangling) ctx.stats.inc("fault_include_dangling");
    if (m.recursive_seen) ctx.stats.inc("probe_recursive_include_detected");
    if (m.repeated_seq) ctx.stats.inc("probe_same_file_included_twice_in_sequence");
    if (lost.count(main)) ctx.stats.inc("probe_main_file_lost");

    // ---- Theo::scan against the resolver model
    WorkMonitor mon;
    mon.scan_limit = 2 * m.tokens + 64;
    ScanResult sr;
    bool aborted = false;
    {
      HookGuard hg(&mon);
      set_phase(PH_SCAN);
      try { sr = Theo::scan(store, main); } catch (SimAbort &) { aborted = true; }
      set_phase(PH_HARNESS);
    }
    ctx.ev("scanned", (long long)sr.toks.size(), (long long)sr.errors.size(), mon.cnt[Theo::verif::SCAN_TOKEN]);
    ctx.sim_steps += mon.total();
    if (aborted && mon.slow_abandoned) { ctx.stats.inc("skipped_slow"); return; }
    if (aborted) {
      ctx.check(false, "C15", "scan_terminates", "scanning took " + std::to_string(mon.exceeded_count) + " token steps; the include structure allows " + std::to_string(mon.exceeded_limit));
      return;
    }
    // errors: multiset comparison on (type, file, line range)
    std::vector<MErr> want = m.errors;
    std::vector<std::string> got_requests;
    for (auto &e : sr.errors) {
      if (e.t != ParseError::MAIN_FILE_NOT_FOUND && e.t != ParseError::EXPECTED_FILENAME && e.t != ParseError::FILE_NOT_FOUND && e.t != ParseError::RECURSIVE_INCLUDE) continue;
      bool found = false;
      for (size_t i = 0; i < want.size(); i++)
        if (want[i].type == (int)e.t && want[i].file == e.file && e.line >= want[i].line_lo && e.line <= want[i].line_hi) {
          if ((e.t == ParseError::FILE_NOT_FOUND || e.t == ParseError::MAIN_FILE_NOT_FOUND) && e.file_request != want[i].request)
            ctx.check(false, "C15", "request_names_missing_file", std::string(perr_name(e.t)) + " at " + e.file + ":" + std::to_string(e.line) + " requests '" + e.file_request + "', the missing file is '" + want[i].request + "'");
          want.erase(want.begin() + i); found = true; break;
        }
      if (!found) ctx.check(false, "C15", "include_errors_match_model", std::string("unexpected ") + perr_name(e.t) + " at " + e.file + ":" + std::to_string(e.line) + " (" + e.msg + ")");
    }
    if (!want.empty()) ctx.check(false, "C15", "include_errors_match_model", std::string("missing ") + perr_name(want[0].type) + " at " + want[0].file + ":" + std::to_string(want[0].line_lo) + (want[0].request.empty() ? "" : " for '" + want[0].request + "'"));
    // token order / labels
    if (!m.has_dangling) {
      std::vector<std::pair<int, Loc>> got;
      for (auto &t : sr.toks) if (t.t == Token::ID && t.text.size() > 1 && t.text[0] == 'm') got.push_back({atoi(t.text.c_str() + 1), {t.file, t.line}});
      bool same = got.size() == m.markers.size();
      for (size_t i = 0; same && i < got.size(); i++) if (got[i].first != m.markers[i].first || !(got[i].second == m.markers[i].second)) same = false;
      if (!same) {
        std::string a, b;
        for (auto &g : got) a += "m" + std::to_string(g.first) + "@" + g.second.file + ":" + std::to_string(g.second.line) + " ";
        for (auto &g : m.markers) b += "m" + std::to_string(g.first) + "@" + g.second.file + ":" + std::to_string(g.second.line) + " ";
        ctx.check(false, "C15", "include_splices_in_place", "token order/labels [" + a + "] expected [" + b + "]");
      }
    }
    if (sr.toks.empty() || sr.toks.back().t != Token::T_EOF) ctx.check(false, "C15", "stream_ends_with_eof", "token stream does not end with the end-of-file token");

    // ---- Theo::compile: requests and messages
    {
      WorkMonitor mon2; bool leaked; long long lb;
      CompileSummary s = monitored_compile(store, main, mon2, false, leaked, lb);
      ctx.sim_steps += mon2.total();
      if (mon2.exceeded && !mon2.slow_abandoned) ctx.check(false, "C15", "scan_terminates", std::string("compile: the ") + site_name(mon2.exceeded) + " exceeded its bound");
    }
    std::set<std::string> req;
    std::vector<Loc> locs;
    auto compile_once = [&](const std::map<std::string, std::string> &st) {
      req.clear(); locs.clear();
      WorkMonitor cm;
      long long bytes = 200;
      for (auto &kv : st) bytes += (long long)kv.second.size();
      std::set<std::string> all;
      for (auto &kv : st) all.insert(kv.first);
      Model mm = model(all, main, true);
      cm.bytes = bytes; cm.ndefs_bound = 8; cm.has_includes = true; cm.scan_limit = 2 * mm.tokens + 256;
      bool ok = false;
      {
        HookGuard hg(&cm);
        set_phase(PH_COMPILE);
        try {
          CodegenResult r = Theo::compile(st, main);
          for (auto &q : r.file_requests) req.insert(q);
          for (auto &e : r.errors) locs.push_back({e.file, e.line});
          ok = r.generated_correctly;
        } catch (SimAbort &) {
          set_phase(PH_HARNESS);
          if (cm.exceeded) { ctx.check(false, "C15", "scan_terminates", std::string("compile: the ") + site_name(cm.exceeded) + " took " + std::to_string(cm.exceeded_count) + " steps, the include structure allows " + std::to_string(cm.exceeded_limit)); ctx.abort_run(); }
          ctx.stats.inc("skipped_slow");
          ctx.abort_run();
        }
        set_phase(PH_HARNESS);
      }
      ctx.sim_steps += cm.total();
      return ok;
    };
    bool compiled_ok = compile_once(store);
    Model mc = model(present, main, true);
    if (req != mc.requests) {
      std::string a, b;
      for (auto &q : req) a += "'" + q + "' ";
      for (auto &q : mc.requests) b += "'" + q + "' ";
      ctx.check(false, "C15", "file_requests_exact", "file_requests {" + a + "} expected {" + b + "}");
    }
    // every predicted include error shows up in compile()'s error list at the predicted position (the message text is
    // the library's business and is not looked at)
    if (!mc.errors.empty() && compiled_ok) ctx.check(false, "C15", "compile_reports_include_errors", "include errors were predicted but compile() marked the result correct");
    for (auto &e : mc.errors) {
      bool found = false;
      for (auto &l : locs) if (l.file == e.file && l.line >= e.line_lo && l.line <= e.line_hi) found = true;
      if (!found) ctx.check(false, "C15", "compile_reports_include_errors", std::string("compile() reports no error at ") + e.file + ":" + std::to_string(e.line_lo) + " where " + perr_name(e.type) + " is due");
    }
    // ---- liveness: the provider answers requests from the pristine store and retries
    std::map<std::string, std::string> st = store;
    std::set<std::string> ever_requested;
    int rounds = 0;
    bool ended = false;
    for (; rounds <= (int)order.size() + 1; rounds++) {
      compile_once(st);
      bool news = false;
      for (auto &q : req) if (!ever_requested.count(q)) { news = true; ever_requested.insert(q); }
      bool added = false;
      for (auto &q : req) if (pristine.count(q) && !st.count(q)) { st[q] = pristine[q]; added = true; }
      ctx.ev("provider_round", rounds, (long long)req.size(), added);
      if (!added) { ended = true; (void)news; break; }
    }
    ctx.stats.max("max_provider_rounds", rounds);
    ctx.stats.inc("provider_loops");
    if (!ended) ctx.check(false, "C15", "provider_loop_ends", "request/retry loop still asking for files after " + std::to_string(rounds) + " rounds with " + std::to_string(order.size()) + " files");
    else {
      // fixed point: whatever is still requested exists nowhere
      for (auto &q : req) if (pristine.count(q)) ctx.check(false, "C15", "provider_loop_ends", "file '" + q + "' was supplied and is still requested");
      std::set<std::string> all;
      for (auto &kv : st) all.insert(kv.first);
      Model fm = model(all, main, true);
      if (req != fm.requests) ctx.check(false, "C15", "file_requests_exact", "after the provider loop the requests differ from the names that exist nowhere");
      // the final store, scanned once more: no missing-file error may remain for a name that was supplied
      {
        WorkMonitor fmn; fmn.scan_limit = 2 * fm.tokens + 256;
        HookGuard hg(&fmn);
        set_phase(PH_SCAN);
        try {
          ScanResult fsr = Theo::scan(st, main);
          for (auto &e : fsr.errors)
            if ((e.t == ParseError::FILE_NOT_FOUND || e.t == ParseError::MAIN_FILE_NOT_FOUND) && st.count(e.file_request))
              ctx.check(false, "C15", "no_error_when_all_present", "file '" + e.file_request + "' is supplied and still reported as missing");
        } catch (SimAbort &) {}
        set_phase(PH_HARNESS);
      }
    }
    out.nontrivial = !m.errors.empty() || order.size() > 1;
  }

  // ---------------------------------------------------------------- C11
  void run_macro() {
    warm_up();
    long long budget = std::max<long long>(1, knob("budget", 1024));
    bool divergent = knob("divergent", 0) != 0;
    bool divergent_e2e = divergent;
    if (knob("prelude_only", 0)) divergent = false;
    std::map<std::string, std::string> files = plan.proj.files;
    std::string main = plan.proj.main;
    ctx.evs("source", files.count(main) ? files[main] : "");
    ctx.ev("budget", budget, divergent);
    set_phase(PH_SCAN);
    ScanResult sr = Theo::scan(files, main);
    set_phase(PH_MACRO);
    MacroExtractionResult mer = Theo::extract_macros(sr.toks);
    ctx.stats.inc("macro_defs", (long long)mer.macros.size());
    WorkMonitor mon;
    mon.budget = budget; mon.bytes = 0; mon.ndefs_bound = (long long)mer.macros.size() + 2; mon.scan_tokens = (long long)sr.toks.size();
    for (auto &kv : files) mon.bytes += (long long)kv.second.size();
    MacroApplicationResult res;
    bool aborted = false;
    bool big = knob("big", 0) != 0;   // large-stream regime: the cost caps are lifted for this run, the bounds stay
    long long keep_cap = g_pass_cost_cap;
    if (big) { mon.pass_cost_cap = (long long)4e18; g_pass_cost_cap = (long long)4e18; mon.total_cap = 400000000; ctx.stats.inc("probe_large_stream_expansion"); }
    {
      HookGuard hg(&mon);
      try { res = Theo::apply_macros(mer.tokens, mer.macros, (unsigned)budget); } catch (SimAbort &) { aborted = true; }
    }
    set_phase(PH_HARNESS);
    g_pass_cost_cap = keep_cap;
    if (big) ctx.stats.max("max_stream_length", mon.max_len);
    long long passes = mon.cnt[Theo::verif::MACRO_PASS];
    ctx.ev("applied", passes, mon.final_len, (long long)res.errors.size());
    ctx.sim_steps += mon.total();
    ctx.stats.max("max_passes_used", passes);
    if (mon.growth_abandoned) { ctx.stats.inc("skipped_growth"); return; }
    if (mon.slow_abandoned) { ctx.stats.inc("skipped_slow"); return; }
    if (aborted) {
      if (mon.exceeded == Theo::verif::MACRO_PASS) ctx.check(false, "C11", "passes_within_budget", "the pass loop was entered " + std::to_string(mon.exceeded_count) + " times with a budget of " + std::to_string(budget));
      else ctx.check(false, "C11", "expansion_returns", std::string("the ") + site_name(mon.exceeded) + " exceeded its bound (" + std::to_string(mon.exceeded_count) + " > " + std::to_string(mon.exceeded_limit) + ")");
      return;
    }
    if (passes > budget) ctx.check(false, "C11", "passes_within_budget", std::to_string(passes) + " passes with a budget of " + std::to_string(budget));
    bool reported = false;
    for (auto &e : res.errors) if (e.t == ParseError::MACRO_APPLY_REACHED_MAX_PASSES) reported = true;
    if (passes == budget) ctx.stats.inc(reported ? "probe_budget_exhausted" : "probe_budget_exactly_enough_no_error");
    // was rewriting still possible?  one more pass on the output tells
    WorkMonitor mon2; mon2.budget = 1; mon2.ndefs_bound = mon.ndefs_bound; mon2.scan_tokens = mon.scan_tokens; mon2.bytes = mon.bytes;
    if (big) { mon2.pass_cost_cap = (long long)4e18; g_pass_cost_cap = (long long)4e18; }
    MacroApplicationResult again;
    {
      HookGuard hg(&mon2);
      set_phase(PH_MACRO);
      try { again = Theo::apply_macros(res.transformed_sequence, mer.macros, 1); } catch (SimAbort &) {}
      set_phase(PH_HARNESS);
    }
    g_pass_cost_cap = keep_cap;
    bool still = false;
    for (auto &e : again.errors) if (e.t == ParseError::MACRO_APPLY_REACHED_MAX_PASSES) still = true;
    ctx.ev("still_rewritable", still, reported);
    if (still) ctx.stats.inc("unfinished_expansions");
    if (still && !reported) ctx.check(false, "C11", "unfinished_expansion_reported", "after " + std::to_string(passes) + " passes (budget " + std::to_string(budget) + ") a pattern still matches, but no too-many-substitutions error was reported");
    if (divergent && !reported) ctx.check(false, "C11", "unfinished_expansion_reported", "divergent macro set returned without the too-many-substitutions error (budget " + std::to_string(budget) + ")");
    if (divergent) ctx.stats.inc("fault_divergent_macro_set");
    // end to end on the compiler's own budget
    if (knob("end_to_end", 0)) {
      WorkMonitor m3; bool leaked; long long lb;
      CompileSummary s = monitored_compile(files, main, m3, false, leaked, lb);
      ctx.sim_steps += m3.total();
      ctx.stats.inc("end_to_end_compiles");
      if (m3.growth_abandoned) ctx.stats.inc("skipped_growth");
      else if (m3.slow_abandoned) ctx.stats.inc("skipped_slow");
      else if (m3.exceeded) ctx.check(false, "C11", "expansion_returns", std::string("compile: the ") + site_name(m3.exceeded) + " exceeded its bound");
      else if (s.returned) {
        if (m3.cnt[Theo::verif::MACRO_PASS] > 1024) ctx.check(false, "C11", "passes_within_budget", "compile made more than 1024 passes");
        if (divergent_e2e && s.ok) ctx.check(false, "C11", "unfinished_never_correct", "a divergent macro set compiled as a correct program");
        if (divergent_e2e) ctx.stats.inc("probe_divergent_through_standard_macros");
        if (m3.cnt[Theo::verif::MACRO_PASS] >= 1024 && s.ok) {
          // exhausted budget and accepted: only fine if the expansion was complete
          ctx.stats.inc("probe_budget_exhausted_end_to_end");
        }
      }
    }
    out.nontrivial = passes >= 1 && !mer.macros.empty();
    Hasher h; h.add_str(files[main]); h.add((uint64_t)budget); out.state_sig = h.get(); g_hll_states.add(out.state_sig);
  }
};

}  // namespace

Plan materialise_fs_plan(const Plan &plan) {
  Ctx ctx; Outcome out;
  FsWorld w(plan, ctx, out);
  w.apply_faults();
  Plan m = plan;
  m.ops.clear();
  m.proj = Project();
  m.proj.files = w.delivered;
  m.proj.main = w.main_name;
  m.proj.has_ast = false;
  m.knobs.erase("enum_total");
  m.note = plan.note + " (faults materialised)";
  return m;
}

// What the process did before this plan (generated part; the pool's own history is recovered by the driver when a report
// does not reproduce in a fresh process): one earlier plan on a sibling of this project.
void attach_history(Plan &p, Rng &rng) {
  if (p.world != "vm" && p.world != "fs") return;
  Plan base = p.world == "fs" && !p.ops.empty() ? materialise_fs_plan(p) : p;
  if (base.proj.files.empty()) return;
  Plan h;
  h.prop = p.prop; h.world = "fs"; h.seed = p.seed; h.run = p.run; h.sub = p.sub;
  h.proj.files = base.proj.files; h.proj.main = base.proj.main; h.proj.has_ast = false;
  int v = (int)rng.below(4);
  if (v == 3 && p.world == "vm") { h = p; h.history.clear(); h.note = "earlier in the same process: the same plan"; p.history.push_back(h); return; }
  if (v == 2) {
    // one number in the body of a macro definition changed: same pattern, other meaning
    std::vector<std::pair<std::string, Span>> cands;
    for (auto &kv : h.proj.files) {
      auto sp = split_tokens(kv.second);
      bool in_def = false, after_as = false;
      for (auto &q : sp) {
        std::string w = kv.second.substr(q.a, q.b - q.a), u = w;
        for (auto &c : u) c = (char)toupper((unsigned char)c);
        if (u == "DEFINE" || u == "DEF") { in_def = true; after_as = false; }
        else if (u == "END DEFINE" || u == "ENDDEF") in_def = false;
        else if (in_def && !after_as && u == "AS") after_as = true;
        else if (in_def && after_as && !w.empty() && w.size() < 9 && std::all_of(w.begin(), w.end(), [](char c) { return isdigit((unsigned char)c); })) cands.push_back({kv.first, q});
      }
    }
    if (cands.empty()) v = 1;
    else {
      auto &c = cands[rng.below(cands.size())];
      std::string &f = h.proj.files[c.first];
      long long val = atoll(f.substr(c.second.a, c.second.b - c.second.a).c_str());
      f.replace(c.second.a, c.second.b - c.second.a, std::to_string(val + 1 + (long long)rng.below(3)));
      h.note = "earlier in the same process: the same project with another number in a macro body";
    }
  }
  if (v == 1) {
    for (auto &kv : h.proj.files) kv.second = std::string((size_t)rng.range(1, 4), '\n') + kv.second;
    h.note = "earlier in the same process: the same files, every line further down";
  }
  if (v == 0 || v == 3) h.note = "earlier in the same process: the same files";
  p.history.push_back(h);
}

void exec_fs_plan(const Plan &plan, Ctx &ctx, Outcome &out) {
  FsWorld w(plan, ctx, out);
  if (plan.world == "incl") w.run_incl();
  else if (plan.world == "macro") w.run_macro();
  else w.run_fs();
  auto it = plan.knobs.find("enum_total");
  if (it != plan.knobs.end()) out.more_subs = plan.sub + 1 < it->second;
}

// =====================================================================================================
// plan generation
// =====================================================================================================
namespace {

Project valid_project(Rng &rng, bool thorough, unsigned macros, bool boundary) {
  GenParams gp;
  gp.max_defs = 3; gp.max_stmts = (int)rng.range(2, thorough ? 10 : 6); gp.max_depth = (int)rng.range(1, 3); gp.max_const = 5;
  gp.allow_noparam = true; gp.allow_stop = rng.chance(1, 4);
  gp.macros = macros; gp.boundary_values = boundary;
  Project p;
  p.has_ast = true;
  p.ast = generate_ast(rng, gp);
  p.layout.seed = rng.next(); p.layout.style = rng.chance(2, 3) ? 0 : 1; p.layout.nfiles = rng.chance(1, 2) ? 1 : (int)rng.range(2, 4); p.layout.spelling = (int)rng.below(4); p.layout.naming = (p.layout.seed >> 9) % 4 == 0 ? 1 : 0; p.layout.cut_defs = (p.layout.seed >> 27) % 2 == 0 ? 1 : 0;
  render(p);
  return p;
}

Op random_fault(Rng &rng, const Project &p) {
  Op o;
  int w = (int)rng.below(100);
  o.a = (long long)rng.below(8);
  o.b = (long long)rng.below(100000);
  if (w < 5) o.k = "file_lost";
  else if (w < 8) o.k = "main_lost";
  else if (w < 11) o.k = "file_empty";
  else if (w < 20) o.k = "trunc_byte";
  else if (w < 32) o.k = "trunc_tok";
  else if (w < 40) { o.k = "byte_flip"; o.c = rng.chance(1, 2) ? 256 + (long long)rng.below(8) : (long long)rng.below(256); }
  else if (w < 55) o.k = "tok_drop";
  else if (w < 62) o.k = "tok_dup";
  else if (w < 72) o.k = "tok_swap";
  else if (w < 85) { o.k = "tok_insert"; o.s = INSERT_VOCAB[rng.below(N_INSERT)]; }
  else if (w < 92) { o.k = "tok_replace"; o.s = INSERT_VOCAB[rng.below(N_INSERT)]; }
  else if (w < 98) { o.k = "lit_inflate"; o.a = (long long)rng.below(64); o.b = rng.chance(1, 2) ? 10 : rng.range(11, 40); o.c = rng.chance(1, 2); }
  else { o.k = "slot_inflate"; o.a = (long long)rng.below(64); o.b = (long long)rng.below(5); }
  (void)p;
  return o;
}

const char *ODD_NAMES[] = {"", "a b.theo", "main.theo", "x", "__standards__", "-", "dir/sub.theo", "//x", "lib\\m.theo", "dir\\", "a'b", "\\\\x\\n"};

Plan gen_incl_plan(Rng &rng, long long sub, bool thorough) {
  Plan p;
  p.world = "incl";
  int nfiles = (int)rng.range(1, thorough ? 5 : 4);
  std::vector<std::string> names;
  for (int i = 0; i < nfiles; i++) {
    std::string n = i == 0 ? "main.theo" : "f" + std::to_string(i);
    if (rng.chance(1, 10)) n = ODD_NAMES[rng.below(12)];
    else if (i > 0 && rng.chance(1, 5)) n = names[rng.below(names.size())] + (rng.chance(1, 2) ? "_ext" : "0");   // a name that extends another file's name
    if (i == 0 && n == "__standards__") n = "main.theo";   // the main file itself is never given the reserved name
    if (std::find(names.begin(), names.end(), n) != names.end()) n += std::to_string(i);
    names.push_back(n);
  }
  int marker = 1;
  for (int i = 0; i < nfiles; i++) {
    Op f; f.k = "file"; f.s = names[(size_t)i]; p.ops.push_back(f);
    int nitems = (int)rng.range(0, 5);
    int ndir = 0;
    for (int k = 0; k < nitems; k++) {
      int w = (int)rng.below(100);
      if (w < 5) { Op j; j.k = "junk"; j.a = (long long)rng.below(6); p.ops.push_back(j); }
      else if (w < 45 || ndir >= 3) { Op m; m.k = "m"; m.a = marker++; p.ops.push_back(m); }
      else if (w < 92) {
        Op inc; inc.k = "inc";
        int tw = (int)rng.below(100);
        if (tw < 70) inc.s = names[rng.below(names.size())];          // any file: self, earlier (cycles), later
        else if (tw < 85 && !p.ops.empty() && p.ops.back().k == "inc") inc.s = p.ops.back().s;  // the same file again, in sequence
        else if (tw < 93) inc.s = "missing" + std::to_string(rng.below(3));
        else inc.s = names[0];
        p.ops.push_back(inc); ndir++;
      } else { Op d; d.k = "dangle"; p.ops.push_back(d); ndir++; }
    }
  }
  // lost files: thorough enumerates all subsets of <= 2 files through `sub`; quick samples
  std::vector<std::vector<int>> subsets = {{}};
  for (int i = 0; i < nfiles; i++) subsets.push_back({i});
  for (int i = 0; i < nfiles; i++) for (int j = i + 1; j < nfiles; j++) subsets.push_back({i, j});
  size_t which;
  if (thorough) { which = (size_t)sub % subsets.size(); p.knobs["enum_total"] = (long long)subsets.size(); }
  else which = rng.chance(1, 3) ? 0 : rng.below(subsets.size());
  for (int i : subsets[which]) { Op l; l.k = "lost"; l.s = names[(size_t)i]; p.ops.push_back(l); }
  p.note = "include topology, " + std::to_string(nfiles) + " files, lost subset #" + std::to_string(which);
  // the text in clear, for the reader of a replay file (the executor derives it again from the ops)
  return p;
}

struct MacroFam { const char *defs; const char *use; bool divergent; bool dup_slot; bool cheap = false; };
const MacroFam MACRO_FAMS[] = {
    {"DEFINE ping AS pong END DEFINE DEFINE pong AS x := 1 ; ping END DEFINE", "ping", true, false},
    {"DEFINE a AS a END DEFINE", "a", true, false, true},
    {"DEFINE a AS a ; a END DEFINE", "a", true, false},
    {"DEFINE grow <ID> AS $0 := 1 ; grow $0 END DEFINE", "grow x", true, false},
    {"DEFINE twice <ID> AS twice $0 ; twice $0 END DEFINE", "twice x", true, true},
    {"DEFINE a AS b END DEFINE DEFINE b AS c END DEFINE DEFINE c AS a END DEFINE", "a", true, false, true},
    {"DEFINE PRIO 5 up <V> AS up RUN f WITH $0 END END DEFINE", "y := 1 ; up 3", true, false},
    {"DEFINE nop AS x := 0 END DEFINE", "nop ; nop ; nop ; nop ; nop", false, false},
    {"DEFINE inc <ID> AS $0 := $0 + 1 END DEFINE", "inc x ; inc y ; inc x", false, false},
    {"DEFINE d1 AS d2 ; d2 END DEFINE DEFINE d2 AS d3 ; d3 END DEFINE DEFINE d3 AS x := x + 1 END DEFINE", "d1 ; d1", false, false},
    {"DEFINE PRIO 30 <ID> ( <ARGS> ) AS RUN $0 WITH $1 END END DEFINE", "PROGRAM f IN a DO x0 := a END x := f ( f ( f ( 1 ) ) )", false, false},
    {"DEFINE sw <ID> <ID> AS #0 := $0 ; $0 := $1 ; $1 := #0 END DEFINE", "sw a b ; sw b c ; sw a c", false, false},
    {"DEFINE IF <V> THEN <P> ELSE <P> END AS #0 := $0 ; LOOP #0 DO $1 END ; $2 END DEFINE", "IF x THEN y := 1 ELSE IF y THEN z := 1 ELSE z := 2 END END", false, false},
    {"DEFINE cnt <INT> AS x := x + $0 END DEFINE", "cnt 1 ; cnt 2 ; cnt 3 ; cnt 4 ; cnt 5 ; cnt 6 ; cnt 7 ; cnt 8", false, false},
    {"DEFINE a <P> AS $0 END DEFINE", "a x := 1", false, false},
    {"DEFINE PRIO 2 lo AS hi END DEFINE DEFINE PRIO 9 hi AS x := 1 END DEFINE", "lo ; lo ; hi", false, false},
    // interplay with the hidden standard macros (x + c, x - c): these only diverge through compile(), where the prelude exists
    {"DEFINE RUN __INC__ WITH <ID> , <INT> END AS $0 + $1 END DEFINE", "x := y + 1", true, false, true},
    {"DEFINE RUN __INC__ WITH <ID> , <INT> END AS $0 + $1 END DEFINE", "x := RUN __INC__ WITH y , 1 END", true, false, true},
    {"DEFINE RUN __DEC__ WITH <ID> , <INT> END AS $0 - $1 END DEFINE", "x := y - 2 ; z := RUN __DEC__ WITH y , 3 END", true, false, true},
    {"DEFINE <ID> := grow AS $0 := $0 + 1 ; $0 := grow END DEFINE", "x0 := grow", true, false},
    // several uses of macros of different priorities: with a small budget the uses left over are not where the last step happened
    {"DEFINE PRIO 9 p AS x := 1 END DEFINE DEFINE PRIO 2 q AS y := 2 END DEFINE", "p ; q ; p ; q ; p ; q", false, false},
    {"DEFINE PRIO 2 p AS x := 1 END DEFINE DEFINE PRIO 9 q AS y := 2 END DEFINE", "q ; p ; p ; q ; q ; p", false, false},
    {"DEFINE PRIO 5 p <ID> AS $0 := 1 END DEFINE DEFINE PRIO 6 q <ID> AS p $0 END DEFINE", "q a ; p b ; q c ; p d", false, false},
    {"DEFINE PRIO 6 p <ID> AS $0 := 1 END DEFINE DEFINE PRIO 5 q <ID> AS p $0 END DEFINE", "p a ; q b ; p c ; q d ; q e", false, false},
    // a runaway macro at one end of the program, another pending use far away at the other end, either priority order
    {"DEFINE PRIO 9 hi AS x := 1 ; hi END DEFINE DEFINE PRIO 2 lo AS y := 2 END DEFINE", "lo ; z := 1 ; z := 2 ; z := 3 ; z := 4 ; z := 5 ; hi", true, false},
    {"DEFINE PRIO 2 hi AS x := 1 ; hi END DEFINE DEFINE PRIO 9 lo AS y := 2 END DEFINE", "lo ; z := 1 ; z := 2 ; z := 3 ; z := 4 ; z := 5 ; hi", true, false},
    {"DEFINE PRIO 9 hi AS hi ; x := 1 END DEFINE DEFINE PRIO 2 lo AS y := 2 END DEFINE", "hi ; z := 1 ; z := 2 ; z := 3 ; z := 4 ; z := 5 ; lo", true, false},
    {"DEFINE PRIO 2 hi AS hi ; x := 1 END DEFINE DEFINE PRIO 2 lo AS lo END DEFINE", "hi ; z := 1 ; z := 2 ; z := 3 ; z := 4 ; z := 5 ; lo ; z := 6 ; z := 7 ; z := 8 ; hi", true, false},
};
const int N_FAMS = sizeof(MACRO_FAMS) / sizeof(MACRO_FAMS[0]);

Plan gen_macro_plan(Rng &rng, bool thorough) {
  Plan p;
  p.world = "macro";
  std::string text;
  bool divergent = false, dup = false, cheap = false, family = false;
  int w = (int)rng.below(100);
  if (rng.chance(1, thorough ? 150 : 500)) {
    // large-stream regime: a self-reproducing macro with a long body, and a budget under which the stream reaches 70-95 thousand tokens
    int nst = (int)rng.range(100, 300);
    text = "DEFINE a AS a";
    for (int i = 0; i < nst; i++) text += " ; x := " + std::to_string(i % 7);
    text += " END DEFINE\na";
    long long target = rng.range(70000, 95000);
    p.knobs["budget"] = target / (4 * nst) + 1;
    p.knobs["divergent"] = 1; p.knobs["growing"] = 1; p.knobs["big"] = 1;
    p.note = "macro family, large stream";
    p.proj.files["main.theo"] = text;
    p.proj.main = "main.theo";
    return p;
  }
  if (w < 70) {
    const MacroFam &f = MACRO_FAMS[rng.below(N_FAMS)];
    divergent = f.divergent; dup = f.dup_slot; cheap = f.cheap; family = true;
    int reps = divergent ? 1 : (int)rng.range(1, thorough ? 12 : 6);
    text = std::string(f.defs) + "\n";
    if (rng.chance(1, 3)) {
      // priorities around (and beyond) the hidden standard macros' 1000000: every definition without one gets one
      static const char *PR[] = {"0", "1", "7", "999999", "1000000", "1000001", "2000000", "2147483646"};
      std::string t2; size_t pos = 0;
      while (pos < text.size()) {
        size_t d = text.find("DEFINE ", pos);
        if (d == std::string::npos || (d >= 4 && text.compare(d - 4, 4, "END ") == 0)) { if (d == std::string::npos) { t2 += text.substr(pos); break; } t2 += text.substr(pos, d + 7 - pos); pos = d + 7; continue; }
        t2 += text.substr(pos, d + 7 - pos); pos = d + 7;
        if (text.compare(pos, 5, "PRIO ") != 0) t2 += std::string("PRIO ") + PR[rng.below(8)] + " ";
      }
      text = t2;
    }
    for (int i = 0; i < reps; i++) { if (i) text += " ;\n"; text += f.use; }
    if (rng.chance(1, 3)) {
      // keywords match by token type, not by spelling: every occurrence gets one of the lexer's three spellings at random
      static const char *RESPELL[] = {"LOOP", "DO", "END", "RUN", "WITH", "IF", "THEN", "ELSE", "WHILE", "GOTO", "PROGRAM", "IN", "OUT", "AS", "DEFINE", "PRIO"};
      std::string t2; size_t pos = 0;
      while (pos < text.size()) {
        if (isspace((unsigned char)text[pos])) { t2 += text[pos++]; continue; }
        size_t e = pos; while (e < text.size() && !isspace((unsigned char)text[e])) e++;
        std::string w = text.substr(pos, e - pos);
        bool kw = false;
        for (auto *k : RESPELL) if (w == k) kw = true;
        bool before_define = w == "END" && text.compare(e, 7, " DEFINE") == 0;
        bool after_end = w == "DEFINE" && pos >= 4 && text.compare(pos - 4, 4, "END ") == 0;
        if (kw && !before_define && !after_end && w != "ELSE") {
          int sp = (int)rng.below(3);
          if (sp == 1) for (size_t i = 1; i < w.size(); i++) w[i] = (char)tolower((unsigned char)w[i]);
          if (sp == 2) for (auto &ch : w) ch = (char)tolower((unsigned char)ch);
        }
        t2 += w; pos = e;
      }
      text = t2;
    }
    p.note = "macro family";
  } else {
    // random macro sets over a small vocabulary; divergence unknown (decided by the second-pass oracle)
    const char *lits[] = {"a", "b", "c", "+", "!", "x", "1"};
    const char *slots[] = {"<ID>", "<INT>", "<V>"};
    int nd = (int)rng.range(1, 3);
    std::string last_head;
    for (int d = 0; d < nd; d++) {
      size_t head_at = text.size();
      text += "DEFINE ";
      if (rng.chance(1, 3)) text += "PRIO " + std::to_string(rng.chance(1, 4) ? 1000000 + (long)rng.below(3) - 1 : (long)rng.below(4)) + " ";
      int rl = (int)rng.range(1, 3), nslots = 0;
      for (int i = 0; i < rl; i++) { if (rng.chance(1, 4)) { text += std::string(slots[rng.below(3)]) + " "; nslots++; } else text += std::string(lits[rng.below(7)]) + " "; }
      text += "AS ";
      last_head = text.substr(head_at);
      int bl = (int)rng.range(0, 4);
      for (int i = 0; i < bl; i++) {
        int bw = (int)rng.below(10);
        if (bw < 2 && nslots) text += "$" + std::to_string(rng.below((uint64_t)nslots)) + " ";
        else if (bw < 3) text += "#" + std::to_string(rng.below(2)) + " ";
        else text += std::string(lits[rng.below(7)]) + " ";
      }
      text += "END DEFINE\n";
    }
    // the same pattern at the same priority once more with another body: which of two equally good matches wins is fixed by the text
    if (!last_head.empty() && rng.chance(1, 4)) text += last_head + std::string(lits[rng.below(7)]) + " " + lits[rng.below(7)] + " END DEFINE\n";
    int ul = (int)rng.range(1, 8);
    for (int i = 0; i < ul; i++) text += std::string(lits[rng.below(7)]) + " ";
    p.note = "random macro set";
  }
  // the compiler's own budget (1024) only where 1024 passes stay cheap: convergent families, and divergent
  // ones whose stream does not grow; growing divergent sets cost quadratic-to-cubic work per run (bounded,
  // but slow) and get small budgets, a growing one at 1024 only very rarely
  long long budget = rng.range(1, 64);
  if (family && !divergent && rng.chance(1, 6)) budget = 1024;
  if (family && divergent && cheap && rng.chance(1, 3)) budget = 1024;
  if (family && divergent && !cheap && !dup && rng.chance(1, 150)) budget = rng.chance(1, 2) ? 1024 : rng.range(65, 300);
  if (dup && budget > 16) budget = rng.range(1, 16);
  p.knobs["budget"] = budget;
  p.knobs["divergent"] = divergent;
  if ((divergent && !cheap) || !family) p.knobs["growing"] = 1;   // may grow under the compiler's fixed budget of 1024
  if (family && !dup && (!divergent || cheap) && rng.chance(1, 6)) p.knobs["end_to_end"] = 1;
  if (text.find("__INC__") != std::string::npos || text.find("__DEC__") != std::string::npos) { p.knobs["end_to_end"] = rng.chance(1, 2); p.knobs["prelude_only"] = 1; }
  if (family && divergent && !cheap && !dup && rng.chance(1, 300)) p.knobs["end_to_end"] = 1;
  p.proj.files["main.theo"] = text;
  p.proj.main = "main.theo";
  return p;
}

}  // namespace

Plan gen_fs_plan(const std::string &prop, Rng &rng, long long sub, const std::string &tier) {
  bool thorough = tier == "thorough";
  if (prop == "C15") return gen_incl_plan(rng, sub, thorough);
  if (prop == "C11") return gen_macro_plan(rng, thorough);
  Plan p;
  p.world = "fs";
  if (prop == "C20") {
    unsigned macros = rng.chance(1, 2) ? ((unsigned)rng.below(16) | (rng.chance(1, 3) ? (unsigned)MF_TWICE : 0u) | (rng.chance(1, 3) ? (unsigned)MF_ARITH : 0u)) : 0;
    p.proj = valid_project(rng, thorough, macros, false);
    Op o; o.k = "lit_inflate"; o.a = (long long)rng.below(64); o.b = rng.chance(1, 3) ? 10 : rng.range(11, 40); o.c = rng.chance(1, 2);
    p.knobs["body_lits"] = 1;
    if ((macros & (MF_CALL | MF_SWAP | MF_ITE)) && rng.chance(1, 3)) { o.k = "slot_inflate"; o.b = (long long)rng.below(5); }
    p.ops.push_back(o);
    p.note = "literal inflation";
    return p;
  }
  // C02
  int mode = (int)rng.below(100);
  if (mode < 12) {
    // hand-written corpus input as the main file, possibly with one more fault on top
    p.proj.files["main.theo"] = "x := 1";
    p.proj.main = "main.theo";
    Op o; o.k = "raw"; o.a = 0; o.s = RAW_CORPUS[rng.below(N_RAW)];
    p.ops.push_back(o);
    if (rng.chance(1, 3)) p.ops.push_back(random_fault(rng, p.proj));
    p.note = "corpus input";
    return p;
  }
  if (mode < 18) {
    // macro sets (families with odd priorities, or random definitions) compiled end to end, sometimes with a fault on top
    Plan mp = gen_macro_plan(rng, thorough);
    for (int tries = 0; tries < 6 && mp.knobs.count("growing") && !rng.chance(1, 12); tries++) mp = gen_macro_plan(rng, thorough);
    p.proj = mp.proj;
    if (rng.chance(1, 3)) p.ops.push_back(random_fault(rng, p.proj));
    p.note = "macro set through compile()";
    return p;
  }
  unsigned macros = rng.chance(1, 2) ? ((unsigned)rng.below(16) | (rng.chance(1, 3) ? (unsigned)MF_TWICE : 0u) | (rng.chance(1, 3) ? (unsigned)MF_ARITH : 0u)) : 0;
  if (rng.chance(1, 5)) macros |= MF_NONLR;   // a definition the compiler must reject (its error position is checked like any other)
  p.proj = valid_project(rng, thorough, macros, rng.chance(1, 10));
  if (thorough && mode < 50) {
    // systematic single-fault sweep over this workload: sub enumerates (kind, position)
    size_t ntok = 0;
    for (auto &kv : p.proj.files) ntok += split_tokens(kv.second).size();
    long long per_kind = (long long)ntok + (long long)p.proj.files.size() + 1;
    long long total = per_kind * 4;
    long long s = sub % total;
    Op o;
    long long kind = s / per_kind, pos = s % per_kind;
    // positions are global token indices: map to (file, index)
    std::vector<std::string> names = file_names(p.proj.files);
    long long fi = 0, ti = pos;
    for (size_t i = 0; i < names.size(); i++) { long long n = (long long)split_tokens(p.proj.files[names[i]]).size() + 1; if (ti < n) { fi = (long long)i; break; } ti -= n; fi = (long long)i; }
    o.a = fi; o.b = ti;
    if (kind == 0) o.k = "trunc_tok"; else if (kind == 1) o.k = "tok_drop"; else if (kind == 2) o.k = "tok_swap"; else { o.k = ti % 2 ? "file_lost" : "tok_dup"; }
    p.ops.push_back(o);
    p.knobs["enum_total"] = total;
    p.note = "single-fault sweep " + std::to_string(s) + "/" + std::to_string(total);
    return p;
  }
  int nf = mode < 60 ? 0 : (int)rng.range(1, 3);
  if (mode >= 12 && mode < 20) nf = 0;
  for (int i = 0; i < nf; i++) p.ops.push_back(random_fault(rng, p.proj));
  if (rng.chance(1, 25)) { Op o; o.k = "rename_main"; o.s = ODD_NAMES[rng.below(12)]; p.ops.push_back(o); }
  p.note = nf ? "valid project + faults" : "valid project, no fault";
  return p;
}

Project random_macro_project(Rng &rng, bool random_set) {
  for (int tries = 0; tries < 20; tries++) {
    Plan mp = gen_macro_plan(rng, false);
    bool is_random = mp.note == "random macro set";
    if (is_random == random_set && !(mp.knobs.count("growing") && !is_random)) return mp.proj;
  }
  return gen_macro_plan(rng, false).proj;
}


}  // namespace sim
