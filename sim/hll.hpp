// HyperLogLog sketch used to estimate the number of distinct states / interleavings reached across all
// worker processes (registers are merged by the driver).  Pure bookkeeping, never consulted by an oracle.
#pragma once
#include <cmath>
#include <cstdint>
#include <string>
#include <vector>

#include "util.hpp"

namespace sim {

struct Hll {
  static const int P = 12, M = 1 << P;
  std::vector<uint8_t> reg = std::vector<uint8_t>(M, 0);
  void add(uint64_t h) {
    uint64_t x = h; h = splitmix64(x);
    uint32_t idx = (uint32_t)(h >> (64 - P));
    uint64_t rest = (h << P) | (1ULL << (P - 1));
    uint8_t rank = (uint8_t)(__builtin_clzll(rest) + 1);
    if (rank > reg[idx]) reg[idx] = rank;
  }
  void add_tuple(uint64_t a, uint64_t b, uint64_t c, uint64_t d) { Hasher h; h.add(a); h.add(b); h.add(c); h.add(d); add(h.get()); }
  void merge(const Hll &o) { for (int i = 0; i < M; i++) if (o.reg[i] > reg[i]) reg[i] = o.reg[i]; }
  long long estimate() const {
    double sum = 0; int zeros = 0;
    for (int i = 0; i < M; i++) { sum += std::ldexp(1.0, -reg[i]); if (!reg[i]) zeros++; }
    double alpha = 0.7213 / (1 + 1.079 / M);
    double e = alpha * M * M / sum;
    if (e <= 2.5 * M && zeros) e = M * std::log((double)M / zeros);
    return (long long)(e + 0.5);
  }
  std::string hex() const { std::string s; static const char *d = "0123456789abcdefghijklmnopqrstuvwxyzABCDEFGHIJKLMNOPQRSTUVWXYZ#$"; for (auto r : reg) s += d[r & 63]; return s; }
  void from_hex(const std::string &s) {
    for (int i = 0; i < M && i < (int)s.size(); i++) {
      char c = s[i]; int v = 0;
      if (c >= '0' && c <= '9') v = c - '0'; else if (c >= 'a' && c <= 'z') v = 10 + c - 'a'; else if (c >= 'A' && c <= 'Z') v = 36 + c - 'A'; else if (c == '#') v = 62; else v = 63;
      reg[i] = (uint8_t)v;
    }
  }
};

extern Hll g_hll_states;

}  // namespace sim
