// W3: concurrent callers.  2-4 tasks, each on a real thread, compile structurally different projects and step
// VMs; threads are parked and released one at a time at the hook points inside the library, so exactly one runs
// at any moment and *who* runs is the plan's decision (schedule vector).  Oracle: every task's serialised result
// equals the same task run alone before and after the concurrent phase.
#include <pthread.h>
#include <sys/wait.h>
#include <unistd.h>

#include <condition_variable>
#include <functional>
#include <mutex>

#include "Compiler/include/compiler.hpp"
#include "VM/include/verif_hook.hpp"
#include "access.hpp"
#include "hll.hpp"
#include "sim.hpp"

using namespace Theo;

namespace sim {

namespace {

// ------------------------------------------------------------------------------------------ fingerprints
void hash_instr(Hasher &h, const Instruction &i) {
  h.add((uint64_t)i.op);
  switch (i.op) {
    case OpCode::TEST: h.add((uint64_t)i.parameters.test.target); h.add((uint64_t)i.parameters.test.op1); h.add((uint64_t)i.parameters.test.op2); break;
    case OpCode::ADD_CONST: h.add((uint64_t)i.parameters.add.target); h.add((uint64_t)i.parameters.add.source); h.add((uint64_t)(int64_t)i.parameters.add.constant); break;
    case OpCode::PREPARE_EXEC: h.add((uint64_t)i.parameters.prepare.count); h.add((uint64_t)i.parameters.prepare.index); h.add((uint64_t)i.parameters.prepare.target); break;
    case OpCode::CONST: case OpCode::JMPC: case OpCode::ARG: h.add((uint64_t)(int64_t)i.parameters.arg.target); h.add((uint64_t)(int64_t)i.parameters.arg.source); break;
    case OpCode::JMP: case OpCode::EXEC: case OpCode::RET: h.add((uint64_t)(int64_t)i.parameters.jmp.offset); break;
    default: break;
  }
}

uint64_t fingerprint_result(const CodegenResult &r) {
  Hasher h;
  h.add(r.generated_correctly);
  h.add(r.errors.size());
  for (auto &e : r.errors) { h.add((uint64_t)e.t); h.add_str(e.message); h.add_str(e.file); h.add((uint64_t)(int64_t)e.line); }
  h.add(r.code.code.size());
  for (size_t k = 0; k < r.code.code.size(); k++) hash_instr(h, r.code.code[k]);
  h.add(r.code.stack_maps.size());
  for (auto &m : r.code.stack_maps) { h.add_str(m.func_name); for (auto &kv : m.map) { h.add((uint64_t)kv.first); h.add_str(kv.second); } }
  for (auto &kv : r.code.potential_breaks) { h.add_str(kv.first.file); h.add((uint64_t)(int64_t)kv.first.line); for (int pc : kv.second) h.add((uint64_t)pc); }
  for (auto &kv : r.code.line_info) { h.add((uint64_t)kv.first); h.add_str(kv.second.file); h.add((uint64_t)(int64_t)kv.second.line); }
  for (auto &q : r.file_requests) h.add_str(q);
  return h.get();
}

struct TaskResult {
  uint64_t compile_fp = 0, exec_fp = 0;
  bool ok = false;
  long long steps = 0;
  bool abandoned = false;
  int interference = 0;   // 1: a second VM built from the same compile result stopped at another VM's breakpoint, 2: it ran differently from a VM on a pristine copy, 3: the compile result itself changed
  bool operator==(const TaskResult &o) const { return compile_fp == o.compile_fp && exec_fp == o.exec_fp; }
};

// what one caller does: compile its project, then drive a VM on the result through its ops
TaskResult run_task(const Task &t, long long step_budget) {
  TaskResult res;
  CodegenResult r;
  try { r = Theo::compile(t.proj.files, t.proj.main); }
  catch (SimAbort &) {
    // the compile was abandoned at a cost cap (bounded-but-slow expansion, or a parse that keeps spinning).  That is
    // not judged by itself, but it is an observable outcome: it must be the same whenever this task is compiled
    __atomic_store_n(&g_slow_abandoned, false, __ATOMIC_RELAXED);
    res.compile_fp = 0xABA2D02EDULL; res.exec_fp = 0; res.ok = false; res.abandoned = true;
    return res;
  }
  res.compile_fp = fingerprint_result(r);
  res.ok = r.generated_correctly;
  if (!r.generated_correctly) return res;
  const Program pristine = r.code;   // taken before any VM exists
  VM vm(r.code);
  std::vector<BreakPoint> avail;
  for (auto &b : r.code.getAvailableBreakpoints()) avail.push_back(b);
  Hasher h;
  long long steps = 0;
  auto step_until_stop = [&](long long max) {
    for (long long k = 0; k < max && steps < step_budget; k++) {
      bool stop = vm.executeSingle();
      steps++;
      if (stop) { h.add((uint64_t)VerifAccess::ip(vm)); BreakPoint b = vm.getCurrentBreak(); h.add_str(b.file); h.add((uint64_t)(int64_t)b.line); break; }
    }
  };
  for (auto &op : t.ops) {
    if (op.k == "bp" && !avail.empty()) { const BreakPoint &b = avail[(size_t)op.a % avail.size()]; h.add(vm.setBreakPoint(b.file, b.line, op.b != 0)); }
    else if (op.k == "stepmode") vm.setSteppingMode(op.a != 0);
    else if (op.k == "clear") vm.clearBreakpoints();
    else if (op.k == "reset") vm.reset();
    else if (op.k == "run") step_until_stop(std::max<long long>(1, op.a));
    else if (op.k == "runall") { for (int k = 0; k < 400 && !vm.isDone() && steps < step_budget; k++) step_until_stop(step_budget); }
    h.add(exec_state_hash(vm));
    h.add(vm.getEnabledBreakPoints().size());
  }
  for (auto &a : vm.getActivations()) for (auto &kv : a.getActivationVariables()) { h.add_str(kv.first); h.add((uint64_t)(int64_t)kv.second); }
  // the program the VM holds must be its own copy: compare against the compile result
  const Program &c = VerifAccess::code(vm);
  for (size_t i = 0; i < c.code.size() && i < r.code.code.size(); i++) if (!same_instr(c.code[i], r.code.code[i], true)) h.add(0xbadc0de + i);
  for (size_t k = 0; k < r.code.code.size(); k++) if (r.code.code[k].op == OpCode::BREAK) h.add(0xb4eaf);  // a VM's breakpoints must not leak into the compile result
  // distinct VM instances never influence one another: while `vm` still holds its breakpoints, a second machine built from
  // the same compile result must run straight to the end, exactly like one built from the pristine copy
  {
    VM second(r.code), clean(pristine);
    long long n = 0; bool early = false;
    while (n < step_budget) { bool stop = second.executeSingle(); n++; if (stop) { if (!second.isDone()) early = true; break; } }
    long long m = 0;
    while (m < n) { bool stop = clean.executeSingle(); m++; if (stop) break; }
    if (early) res.interference = 1;
    else if (exec_state_hash(second) != exec_state_hash(clean)) res.interference = 2;
    for (size_t i = 0; i < pristine.code.size() && i < r.code.code.size(); i++) if (!same_instr(r.code.code[i], pristine.code[i], false)) res.interference = 3;
    steps += n + m;
  }
  // a family of machines built from ONE compile result before any of them sets a breakpoint; the result may be destroyed
  // before they do (plan bit 1), the order of the two enables (bit 2) and clear vs reset (bit 4) are the plan's
  for (auto &op : t.ops) {
    if (op.k != "family" || avail.empty()) continue;
    CodegenResult ref = Theo::compile(t.proj.files, t.proj.main);        // independent copy with its own buffers
    CodegenResult *src = new CodegenResult(Theo::compile(t.proj.files, t.proj.main));
    if (!ref.generated_correctly || !src->generated_correctly) { delete src; continue; }
    {
      VM a(src->code), b(src->code);
      if (op.a & 1) { delete src; src = nullptr; }
      BreakPoint la = avail[(size_t)op.b % avail.size()], lb = avail[(size_t)op.c % avail.size()];
      if (op.a & 2) { b.setBreakPoint(lb.file, lb.line, true); a.setBreakPoint(la.file, la.line, true); }
      else { a.setBreakPoint(la.file, la.line, true); b.setBreakPoint(lb.file, lb.line, true); }
      if (op.a & 4) a.reset(); else a.clearBreakpoints();
      VM clean(ref.code);
      long long n = 0; bool early = false;
      while (n < step_budget) { bool stop = a.executeSingle(); n++; if (stop) { if (!a.isDone()) early = true; break; } }
      for (long long m = 0; m < n; m++) if (clean.executeSingle()) break;
      if (early) res.interference = 4;
      else if (exec_state_hash(a) != exec_state_hash(clean)) res.interference = 5;
      VM refb(ref.code);
      refb.setBreakPoint(lb.file, lb.line, true);
      for (int round = 0; round < 50 && !res.interference; round++) {
        long long k1 = 0, k2 = 0;
        while (k1 < step_budget && !b.executeSingle()) k1++;
        while (k2 < step_budget && !refb.executeSingle()) k2++;
        if (k1 != k2 || exec_state_hash(b) != exec_state_hash(refb)) res.interference = 6;
        steps += k1 + k2;
        if (b.isDone() || refb.isDone() || k1 >= step_budget) break;
      }
      steps += 2 * n;
      h.add(0xfa111 + (uint64_t)res.interference);
    }
    delete src;
  }
  res.exec_fp = h.get();
  res.steps = steps;
  return res;
}

// ------------------------------------------------------------------------------------------ scheduler
struct Scheduler : HookSink {
  std::mutex mu;
  std::vector<std::condition_variable> cv;
  int current = 0;
  std::vector<char> finished;
  const std::vector<int> &schedule;
  size_t decision = 0;
  Ctx &ctx;
  long long switches = 0, yields = 0;
  long long yields_by_site[20] = {0};
  long long switches_by_site[20] = {0};
  Hasher interleaving;
  std::vector<int> in_gen, in_scan;   // per task: currently inside gen() / scan loop (for probes)
  long long probe_switch_while_other_in_gen = 0, probe_switch_while_other_in_scan = 0;
  std::vector<int> last_site;

  static thread_local int tl_task;

  Scheduler(size_t n, const std::vector<int> &s, Ctx &c) : cv(n), finished(n, 0), schedule(s), ctx(c), in_gen(n, 0), in_scan(n, 0), last_site(n, 0) {}

  int next_runnable(int me, int hops) {
    int n = (int)finished.size(), cand = me;
    for (int h = 0; h < hops; h++) {
      int c = cand;
      for (int k = 1; k <= n; k++) { int x = (cand + k) % n; if (!finished[(size_t)x]) { c = x; break; } }
      cand = c;
    }
    return cand;
  }
  void wait_turn(std::unique_lock<std::mutex> &lk, int me) { cv[(size_t)me].wait(lk, [&] { return current == me; }); }
  void start(int me) { std::unique_lock<std::mutex> lk(mu); wait_turn(lk, me); }
  void finish(int me) {
    std::unique_lock<std::mutex> lk(mu);
    finished[(size_t)me] = 1;
    int nx = next_runnable(me, 1);
    if (!finished[(size_t)nx]) { current = nx; cv[(size_t)nx].notify_all(); } else current = -1;
  }
  void yield_point(int site) {
    int me = tl_task;
    if (me < 0) return;
    std::unique_lock<std::mutex> lk(mu);
    yields++;
    if (site < 20) yields_by_site[site]++;
    last_site[(size_t)me] = site;
    int d = decision < schedule.size() ? schedule[decision] : 0;
    decision++;
    if (d <= 0) return;
    int nx = next_runnable(me, d);
    if (nx == me) return;
    switches++;
    if (site < 20) switches_by_site[site]++;
    interleaving.add((uint64_t)me); interleaving.add((uint64_t)site); interleaving.add((uint64_t)nx);
    g_hll_states.add_tuple((uint64_t)me, (uint64_t)site, (uint64_t)nx, (uint64_t)last_site[(size_t)nx]);
    // probes: the thread we switch to was parked inside gen() / the scan loop
    if (last_site[(size_t)nx] == Theo::verif::GEN_NODE) probe_switch_while_other_in_gen++;
    if (last_site[(size_t)nx] == Theo::verif::SCAN_TOKEN) probe_switch_while_other_in_scan++;
    current = nx;
    cv[(size_t)nx].notify_all();
    wait_turn(lk, me);
  }
  void on_point(int site, long, long) override {
    using namespace Theo::verif;
    if (site == SCAN_TOKEN || site == MACRO_PASS || site == PARSE_P || site == GEN_NODE || site == VM_STEP || site == MACRO_DETECT || site == LR_ELEMENTS) yield_point(site);
  }
};
thread_local int Scheduler::tl_task = -1;

struct ThreadArg { Scheduler *s; int me; const Task *task; TaskResult *out; long long budget; bool *threw; };
void *thread_main(void *p) {
  ThreadArg *a = (ThreadArg *)p;
  Scheduler::tl_task = a->me;
  a->s->start(a->me);
  try { *a->out = run_task(*a->task, a->budget); } catch (SimAbort &) { *a->threw = !__atomic_load_n(&g_slow_abandoned, __ATOMIC_RELAXED); } catch (...) { *a->threw = true; }
  a->s->yield_point(0);  // API boundary
  a->s->finish(a->me);
  Scheduler::tl_task = -1;
  return nullptr;
}

struct FreeArg { const Task *task; TaskResult *out; long long budget; };
void *free_thread_main(void *p) { FreeArg *a = (FreeArg *)p; try { *a->out = run_task(*a->task, a->budget); } catch (...) {} return nullptr; }

}  // namespace

void exec_mt_plan(const Plan &plan, Ctx &ctx, Outcome &out) {
  size_t n = plan.tasks.size();
  if (n == 0) return;
  long long budget = 3000;
  { auto it = plan.knobs.find("vm_steps"); if (it != plan.knobs.end()) budget = it->second; }
  bool free_running = plan.knobs.count("free_running") && plan.knobs.at("free_running");
  // in this world an abandoned compile is just another outcome to compare, so the caps can be tight and the runs stay short
  g_pass_cost_cap = 3000000LL; g_lr_total_cap = 2000000LL;
  for (auto &t : plan.tasks) ctx.evs("task", project_brief(t.proj));

  // history helper: a child forked before this process touches the library for this plan runs every task alone in
  // the opposite order; what a task yields must not depend on which other task came first
  int hfd[2] = {-1, -1};
  pid_t helper = -1;
  if (!free_running && pipe(hfd) == 0) {
    fflush(stdout);
    helper = fork();
    if (helper == 0) {
      close(hfd[0]);
      die_with_parent();
      arm_guard(30, 300);
      set_phase(PH_COMPILE);
      std::vector<uint64_t> fps(2 * n, 0);
      for (size_t k = n; k-- > 0;) { seed_heap((uint64_t)plan.run * 1000 + k * 10 + 4); TaskResult r = run_task(plan.tasks[k], budget); fps[2 * k] = r.compile_fp; fps[2 * k + 1] = r.exec_fp; }
      ssize_t w = write(hfd[1], fps.data(), fps.size() * sizeof(uint64_t)); (void)w;
      _exit(0);
    }
    close(hfd[1]);
  }

  // (a) every task alone, before any concurrency
  set_phase(PH_COMPILE);
  std::vector<TaskResult> alone(n), conc(n), again(n);
  for (size_t k = 0; k < n; k++) { seed_heap((uint64_t)plan.run * 1000 + k * 10 + 1); alone[k] = run_task(plan.tasks[k], budget); ctx.ev("alone", (long long)k, (long long)(alone[k].compile_fp & 0xffffffff), (long long)(alone[k].exec_fp & 0xffffffff)); ctx.sim_steps += alone[k].steps; }

  // concurrent phase on real threads
  pthread_attr_t attr;
  pthread_attr_init(&attr);
  pthread_attr_setstacksize(&attr, 512UL << 20);
  std::vector<pthread_t> th(n);
  std::vector<char> threw(n, 0);
  seed_heap((uint64_t)plan.run * 1000 + 2);
  if (heap_is_seeded()) ctx.stats.inc("fault_seeded_heap_layouts", 3 * (long long)n + 1);
  if (free_running) {
    std::vector<FreeArg> args(n);
    for (size_t k = 0; k < n; k++) { args[k] = {&plan.tasks[k], &conc[k], budget}; pthread_create(&th[k], &attr, free_thread_main, &args[k]); }
    for (size_t k = 0; k < n; k++) pthread_join(th[k], nullptr);
    ctx.stats.inc("free_running_task_sets");
  } else {
    Scheduler sched(n, plan.schedule, ctx);
    std::vector<ThreadArg> args(n);
    std::vector<bool> dummy;
    bool threw_flags[8] = {false};
    {
      HookGuard hg(&sched);
      for (size_t k = 0; k < n; k++) { args[k] = {&sched, (int)k, &plan.tasks[k], &conc[k], budget, &threw_flags[k % 8]}; pthread_create(&th[k], &attr, thread_main, &args[k]); }
      for (size_t k = 0; k < n; k++) pthread_join(th[k], nullptr);
    }
    for (size_t k = 0; k < n; k++) threw[k] = threw_flags[k % 8];
    ctx.ev("schedule", sched.yields, sched.switches, (long long)(sched.interleaving.get() & 0xffffffff));
    ctx.stats.inc("yield_points", sched.yields);
    ctx.stats.inc("context_switches", sched.switches);
    using namespace Theo::verif;
    ctx.stats.inc("fault_preemption_at_scan_token", sched.switches_by_site[SCAN_TOKEN]);
    ctx.stats.inc("fault_preemption_at_macro_pass", sched.switches_by_site[MACRO_PASS] + sched.switches_by_site[MACRO_DETECT] + sched.switches_by_site[LR_ELEMENTS]);
    ctx.stats.inc("fault_preemption_at_parse_stmt", sched.switches_by_site[PARSE_P]);
    ctx.stats.inc("fault_preemption_at_gen_node", sched.switches_by_site[GEN_NODE]);
    ctx.stats.inc("fault_preemption_at_vm_step", sched.switches_by_site[VM_STEP]);
    ctx.stats.inc("fault_preemption_at_api_boundary", sched.switches_by_site[0]);
    ctx.stats.inc("probe_switch_to_task_parked_in_gen", sched.probe_switch_while_other_in_gen);
    ctx.stats.inc("probe_switch_to_task_parked_in_scan", sched.probe_switch_while_other_in_scan);
    out.state_sig = sched.interleaving.get();
    out.nontrivial = sched.switches >= 2;
  }
  pthread_attr_destroy(&attr);
  set_phase(PH_HARNESS);

  // (b) every task alone again, after the concurrent phase, in reverse order
  set_phase(PH_COMPILE);
  for (size_t k = n; k-- > 0;) { seed_heap((uint64_t)plan.run * 1000 + k * 10 + 3); again[k] = run_task(plan.tasks[k], budget); ctx.sim_steps += again[k].steps; }
  set_phase(PH_HARNESS);

  for (size_t k = 0; k < n; k++) {
    ctx.ev("result", (long long)k, (long long)(conc[k].compile_fp & 0xffffffff), (long long)(conc[k].exec_fp & 0xffffffff));
    if (threw[k]) ctx.check(false, "C18", "concurrent_call_completes", "task " + std::to_string(k) + " ended with an exception only when run concurrently");
    if (alone[k].compile_fp != conc[k].compile_fp)
      ctx.check(false, "C18", "compile_result_independent_of_other_threads", "task " + std::to_string(k) + ": compile() result differs between running alone and running interleaved with the other tasks");
    else if (alone[k].exec_fp != conc[k].exec_fp)
      ctx.check(false, "C18", "vm_independent_of_other_threads", "task " + std::to_string(k) + ": VM run differs between running alone and running interleaved with the other tasks");
    if (alone[k].compile_fp != again[k].compile_fp)
      ctx.check(false, "C18", "compile_result_independent_of_history", "task " + std::to_string(k) + ": compiling the same inputs again later in the process gives a different result");
    else if (alone[k].exec_fp != again[k].exec_fp)
      ctx.check(false, "C18", "vm_independent_of_history", "task " + std::to_string(k) + ": the same VM session gives a different result later in the process");
    for (const TaskResult *tr : {&alone[k], &conc[k], &again[k]})
      if (tr->interference)
        ctx.check(false, "C18", "vm_instances_independent", "task " + std::to_string(k) + ": " + (tr->interference == 1 ? "a second VM built from the same compile result stopped at a breakpoint that was set in another VM"
                  : tr->interference == 2 ? "a second VM built from the same compile result ran differently from a VM on a pristine copy of the program"
                  : tr->interference == 3 ? "setting breakpoints in a VM changed the CodegenResult it was built from"
                  : tr->interference == 4 ? "two VMs built from one compile result: after clearing its own breakpoints one of them still stops (at the other's breakpoint)"
                  : tr->interference == 5 ? "two VMs built from one compile result: after clearing its breakpoints one of them runs differently from a clean machine"
                  : "two VMs built from one compile result: the one with a breakpoint does not stop where a machine of its own would"));
    if (alone[k].abandoned) ctx.stats.inc("tasks_abandoned_slow");
    if (alone[k].ok) ctx.stats.inc("tasks_compiled_ok"); else ctx.stats.inc("tasks_with_compile_errors");
  }
  if (helper > 0) {
    std::vector<uint64_t> fps(2 * n, 0);
    size_t got = 0; ssize_t r;
    while (got < fps.size() * sizeof(uint64_t) && (r = read(hfd[0], (char *)fps.data() + got, fps.size() * sizeof(uint64_t) - got)) > 0) got += (size_t)r;
    close(hfd[0]);
    int st = 0; waitpid(helper, &st, 0);
    if (got == fps.size() * sizeof(uint64_t)) {
      ctx.stats.inc("reordered_history_runs");
      for (size_t k = 0; k < n; k++) {
        ctx.ev("reordered", (long long)k, (long long)(fps[2 * k] & 0xffffffff), (long long)(fps[2 * k + 1] & 0xffffffff));
        if (fps[2 * k] != alone[k].compile_fp)
          ctx.check(false, "C18", "compile_result_independent_of_history", "task " + std::to_string(k) + ": compile() gives a different result when the other tasks of this plan were compiled before it than when they were compiled after it");
        else if (fps[2 * k + 1] != alone[k].exec_fp)
          ctx.check(false, "C18", "vm_independent_of_history", "task " + std::to_string(k) + ": the VM session differs depending on which tasks ran before it");
      }
    } else ctx.check(false, "C18", "reordered_run_completes", "running the tasks alone in the opposite order did not complete (status " + std::to_string(st) + ")");
  }
  // tasks sharing one project must agree on the compile result among themselves
  for (size_t a = 0; a < n; a++) for (size_t b = a + 1; b < n; b++)
    if (plan.tasks[a].proj.files == plan.tasks[b].proj.files && plan.tasks[a].proj.main == plan.tasks[b].proj.main) {
      ctx.stats.inc("probe_two_vms_on_one_program");
      if (conc[a].compile_fp != conc[b].compile_fp) ctx.check(false, "C18", "compile_result_independent_of_other_threads", "two concurrent compilations of identical inputs disagree");
    }
  ctx.stats.inc("tasks", (long long)n);
}

// =====================================================================================================
Plan gen_mt_plan(const std::string &, Rng &rng, long long, const std::string &tier) {
  bool thorough = tier == "thorough";
  Plan p;
  p.world = "mt";
  int ntasks = (int)rng.range(2, thorough ? 4 : 3);
  bool twin = rng.chance(3, 10);
  for (int k = 0; k < ntasks; k++) {
    Task t;
    int variant = k == 0 ? 0 : (int)rng.below(10);   // later tasks are often near-copies of the first: same rules, names, files - other positions
    if (twin && k == 1) t.proj = p.tasks[0].proj;
    else if (rng.chance(1, 4)) {
      // a task that is all about macros: a random set of short patterns (shapes like `1 a`, `<ID>`, `<INT> <ID>`, `2 * <ID>`)
      // or one of the families; different tasks get different sets, so that state keyed on part of a definition shows
      t.proj = random_macro_project(rng, rng.chance(7, 10));
    }
    else if (k > 0 && variant == 5 && p.tasks[0].proj.files.size() > 1) {
      // the first task's project asked for through one of its included files, which is not supplied: a compile that ends at
      // "main file not found" must leave nothing behind for the thread's next compile that includes that file
      t.proj = p.tasks[0].proj;
      for (auto it = t.proj.files.begin(); it != t.proj.files.end(); ++it)
        if (it->first != t.proj.main) { t.proj.main = it->first; t.proj.files.erase(it); break; }
      t.proj.has_ast = false;
    }
    else if (k > 0 && variant < 5 && p.tasks[0].proj.has_ast) {
      t.proj = p.tasks[0].proj;
      if (variant < 2) { t.proj.layout.seed = rng.next(); t.proj.layout.style = (int)rng.below(2); t.proj.layout.nfiles = (int)rng.range(1, 3); render(t.proj); }   // same AST, other layout
      else if (variant < 4) {   // same text, shifted down / other file names
        std::map<std::string, std::string> nf;
        for (auto &kv : t.proj.files) {
          std::string name = kv.first, text = kv.second;
          if (variant == 2 || name == t.proj.main) text = std::string((size_t)rng.range(1, 3), '\n') + text;
          nf[name] = text;
        }
        if (variant == 3 && nf.size() == 1) { std::string text = nf.begin()->second; nf.clear(); nf["other.theo"] = text; t.proj.main = "other.theo"; }
        t.proj.files = nf; t.proj.has_ast = false;
      } else {   // one constant changed
        std::function<bool(std::vector<Stmt> &)> bump = [&](std::vector<Stmt> &b) { for (auto &s : b) { if (s.k == Stmt::ASSIGN && s.val.k == Val::CONST) { s.val.c += 1; return true; } if (bump(s.body) || bump(s.body2)) return true; } return false; };
        if (!bump(t.proj.ast.main)) for (auto &r : t.proj.ast.defs) if (bump(r.body)) break;
        render(t.proj);
      }
    } else {
      GenParams gp;
      gp.max_defs = (int)rng.range(0, 3); gp.max_stmts = (int)rng.range(2, thorough ? 9 : 6); gp.max_depth = (int)rng.range(1, 3); gp.max_const = 4;
      gp.allow_noparam = true; gp.allow_stop = rng.chance(1, 5);
      gp.macros = rng.chance(1, 2) ? ((unsigned)rng.below(16) | (rng.chance(1, 3) ? (unsigned)MF_TWICE : 0u) | (rng.chance(1, 3) ? (unsigned)MF_ARITH : 0u)) : 0;
      if (rng.chance(1, 4)) gp.macros |= MF_NONLR;
      gp.call_heavy = rng.chance(1, 3);
      t.proj.has_ast = true;
      t.proj.ast = generate_ast(rng, gp);
      t.proj.layout.seed = rng.next(); t.proj.layout.style = (int)rng.below(2); t.proj.layout.nfiles = rng.chance(1, 2) ? 1 : (int)rng.range(2, 3); t.proj.layout.spelling = (int)rng.below(4);
      render(t.proj);
      if (t.proj.files.size() > 1 && rng.chance(1, 4)) {
        // include errors: a lost file (FILE_NOT_FOUND) and / or a file that includes its includer (RECURSIVE_INCLUDE)
        for (auto it = t.proj.files.begin(); it != t.proj.files.end(); ++it)
          if (it->first != t.proj.main) {
            if (rng.chance(1, 2)) { it->second += "\ninclude \"" + t.proj.main + "\"\n"; }
            else { t.proj.files.erase(it); }
            break;
          }
        t.proj.has_ast = false;
      } else if (rng.chance(1, 4)) {
        // a project with errors: compile messages must be deterministic too
        auto it = t.proj.files.begin();
        std::advance(it, (long)rng.below(t.proj.files.size()));
        std::string &f = it->second;
        static const char *BAD[] = {" ; ; ", " nosuch := RUN nosuch WITH 1 END ", " ; x0 := 99999999999999999999 ; ", " ; x0 := x0 + 340282366920938463463374607431768211456 ; ",
                                    " DEFINE PRIO 99999999999999999999 zz AS x0 := 1 END DEFINE ", " DEFINE zz <ID> AS $0 := $18446744073709551616 END DEFINE "};
        if (!f.empty()) { size_t pos = rng.below(f.size()); f.insert(pos, BAD[rng.below(6)]); }
        t.proj.has_ast = false;
      }
    }
    int nops = (int)rng.range(1, 6);
    for (int i = 0; i < nops; i++) {
      Op o; int w = (int)rng.below(10);
      if (w < 3) { o.k = "bp"; o.a = (long long)rng.below(32); o.b = rng.chance(3, 4); }
      else if (w < 4) { o.k = "stepmode"; o.a = rng.chance(1, 2); }
      else if (w < 5) o.k = "clear";
      else if (w < 6 && rng.chance(1, 3)) o.k = "reset";
      else { o.k = "run"; o.a = rng.range(1, 200); }
      t.ops.push_back(o);
    }
    if (twin && k == 1) { t.ops.clear(); }   // the twin runs without any breakpoint
    if (rng.chance(3, 5)) { Op f; f.k = "family"; f.a = (long long)rng.below(8); f.b = (long long)rng.below(32); f.c = (long long)rng.below(32); t.ops.push_back(f); }
    Op e; e.k = "runall"; t.ops.push_back(e);
    p.tasks.push_back(t);
  }
  // schedule: switch density 1/2 .. 1/64
  int dens = 1 << (int)rng.range(1, 6);
  int len = thorough ? 6000 : 2500;
  p.schedule.reserve((size_t)len);
  for (int i = 0; i < len; i++) p.schedule.push_back(rng.chance(1, dens) ? (int)rng.range(1, ntasks - 1) : 0);
  p.knobs["vm_steps"] = thorough ? 6000 : 2000;
  p.knobs["density"] = dens;
  p.note = std::to_string(ntasks) + " tasks" + (twin ? " (two on one program)" : "");
  return p;
}

}  // namespace sim
