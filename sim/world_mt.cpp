#include "sim.hpp"
namespace sim {
Plan gen_mt_plan(const std::string &, Rng &, long long, const std::string &) { Plan p; p.world = "mt"; return p; }
void exec_mt_plan(const Plan &, Ctx &, Outcome &) {}
}  // namespace sim
