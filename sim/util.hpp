// Basic utilities of the simulator: the one PRNG, the hash used for event logs, a small JSON value.
#pragma once
#include <cstdint>
#include <cstdio>
#include <cstdlib>
#include <cstring>
#include <map>
#include <memory>
#include <stdexcept>
#include <string>
#include <vector>

namespace sim {

// ---------------------------------------------------------------- PRNG (splitmix64 -> xoshiro256**)
inline uint64_t splitmix64(uint64_t &x) {
  uint64_t z = (x += 0x9e3779b97f4a7c15ULL);
  z = (z ^ (z >> 30)) * 0xbf58476d1ce4e5b9ULL;
  z = (z ^ (z >> 27)) * 0x94d049bb133111ebULL;
  return z ^ (z >> 31);
}

struct Rng {
  uint64_t s[4];
  explicit Rng(uint64_t seed = 1) { reseed(seed); }
  void reseed(uint64_t seed) {
    uint64_t x = seed;
    for (auto &v : s) v = splitmix64(x);
  }
  static uint64_t rotl(uint64_t x, int k) { return (x << k) | (x >> (64 - k)); }
  uint64_t next() {
    uint64_t r = rotl(s[1] * 5, 7) * 9, t = s[1] << 17;
    s[2] ^= s[0]; s[3] ^= s[1]; s[1] ^= s[2]; s[0] ^= s[3]; s[2] ^= t; s[3] = rotl(s[3], 45);
    return r;
  }
  // uniform in [0, n)
  uint64_t below(uint64_t n) { return n ? next() % n : 0; }
  long range(long lo, long hi) { return lo + (long)below((uint64_t)(hi - lo + 1)); }  // inclusive
  bool chance(int num, int den) { return (int)below(den) < num; }
  template <class T> const T &pick(const std::vector<T> &v) { return v[below(v.size())]; }
  Rng fork() { return Rng(next()); }
};

inline uint64_t hash_str(const std::string &s) {
  uint64_t h = 1469598103934665603ULL;
  for (unsigned char c : s) { h ^= c; h *= 1099511628211ULL; }
  return h;
}

// incremental 64-bit hash (FNV-1a over 64-bit words, then a finaliser); no allocation
struct Hasher {
  uint64_t h = 0xcbf29ce484222325ULL;
  void add(uint64_t v) {
    for (int i = 0; i < 8; i++) { h ^= (v & 0xff); h *= 1099511628211ULL; v >>= 8; }
  }
  void add_str(const std::string &s) { add(s.size()); for (unsigned char c : s) { h ^= c; h *= 1099511628211ULL; } }
  uint64_t get() const { uint64_t x = h; return splitmix64(x); }
};

inline std::string hex64(uint64_t v) { char b[20]; snprintf(b, sizeof b, "%016llx", (unsigned long long)v); return b; }

// ---------------------------------------------------------------- JSON
struct Json;
using JsonP = std::shared_ptr<Json>;
struct Json {
  enum K { NUL, BOOL, NUM, STR, ARR, OBJ } k = NUL;
  bool b = false;
  long long n = 0;
  double d = 0; bool is_double = false;
  std::string s;
  std::vector<Json> a;
  std::vector<std::pair<std::string, Json>> o;  // insertion ordered

  Json() {}
  Json(bool v) : k(BOOL), b(v) {}
  Json(int v) : k(NUM), n(v) {}
  Json(long v) : k(NUM), n(v) {}
  Json(long long v) : k(NUM), n(v) {}
  Json(unsigned long v) : k(NUM), n((long long)v) {}
  Json(double v) : k(NUM), d(v), is_double(true) {}
  Json(const char *v) : k(STR), s(v) {}
  Json(const std::string &v) : k(STR), s(v) {}
  static Json arr() { Json j; j.k = ARR; return j; }
  static Json obj() { Json j; j.k = OBJ; return j; }

  Json &set(const std::string &key, Json v) {
    k = OBJ;
    for (auto &p : o) if (p.first == key) { p.second = std::move(v); return *this; }
    o.emplace_back(key, std::move(v));
    return *this;
  }
  Json &push(Json v) { k = ARR; a.push_back(std::move(v)); return *this; }
  const Json *find(const std::string &key) const {
    for (auto &p : o) if (p.first == key) return &p.second;
    return nullptr;
  }
  const Json &at(const std::string &key) const {
    auto p = find(key);
    if (!p) throw std::runtime_error("json: missing key " + key);
    return *p;
  }
  bool has(const std::string &key) const { return find(key) != nullptr; }
  long long num(const std::string &key, long long dflt = 0) const { auto p = find(key); return p && p->k == NUM ? (p->is_double ? (long long)p->d : p->n) : dflt; }
  std::string str(const std::string &key, const std::string &dflt = "") const { auto p = find(key); return p && p->k == STR ? p->s : dflt; }
  bool boolean(const std::string &key, bool dflt = false) const { auto p = find(key); return p && p->k == BOOL ? p->b : dflt; }

  static void esc(const std::string &s, std::string &out) {
    out += '"';
    for (unsigned char c : s) {
      switch (c) {
        case '"': out += "\\\""; break;
        case '\\': out += "\\\\"; break;
        case '\n': out += "\\n"; break;
        case '\t': out += "\\t"; break;
        case '\r': out += "\\r"; break;
        default:
          if (c < 0x20 || c >= 0x7f) { char b[8]; snprintf(b, sizeof b, "\\u%04x", c); out += b; }  // bytes as latin-1 code points
          else out += (char)c;
      }
    }
    out += '"';
  }
  void dump(std::string &out, int indent = -1, int lvl = 0) const {
    auto nl = [&](int l) { if (indent >= 0) { out += '\n'; out.append((size_t)(l * indent), ' '); } };
    switch (k) {
      case NUL: out += "null"; break;
      case BOOL: out += b ? "true" : "false"; break;
      case NUM: if (is_double) { char buf[40]; snprintf(buf, sizeof buf, "%.3f", d); out += buf; } else out += std::to_string(n); break;
      case STR: esc(s, out); break;
      case ARR: {
        out += '[';
        bool simple = true;
        for (auto &e : a) if (e.k == ARR || e.k == OBJ) simple = false;
        for (size_t i = 0; i < a.size(); i++) {
          if (i) out += ',';
          if (!simple) nl(lvl + 1); else if (i && indent >= 0) out += ' ';
          a[i].dump(out, indent, lvl + 1);
        }
        if (!simple && !a.empty()) nl(lvl);
        out += ']';
        break;
      }
      case OBJ: {
        out += '{';
        for (size_t i = 0; i < o.size(); i++) {
          if (i) out += ',';
          nl(lvl + 1);
          esc(o[i].first, out);
          out += indent >= 0 ? ": " : ":";
          o[i].second.dump(out, indent, lvl + 1);
        }
        if (!o.empty()) nl(lvl);
        out += '}';
        break;
      }
    }
  }
  std::string dump(int indent = -1) const { std::string s; dump(s, indent); return s; }

  // ---- parser
  struct P {
    const std::string &t; size_t i = 0;
    void ws() { while (i < t.size() && (t[i] == ' ' || t[i] == '\n' || t[i] == '\t' || t[i] == '\r')) i++; }
    [[noreturn]] void fail(const char *m) { throw std::runtime_error(std::string("json parse: ") + m + " at " + std::to_string(i)); }
    Json val() {
      ws();
      if (i >= t.size()) fail("eof");
      char c = t[i];
      if (c == '{') {
        Json j = Json::obj(); i++; ws();
        if (t[i] == '}') { i++; return j; }
        for (;;) {
          ws(); Json key = val(); if (key.k != STR) fail("key");
          ws(); if (t[i] != ':') fail(":"); i++;
          j.o.emplace_back(key.s, val());
          ws(); if (t[i] == ',') { i++; continue; }
          if (t[i] == '}') { i++; return j; }
          fail("obj");
        }
      }
      if (c == '[') {
        Json j = Json::arr(); i++; ws();
        if (t[i] == ']') { i++; return j; }
        for (;;) {
          j.a.push_back(val()); ws();
          if (t[i] == ',') { i++; continue; }
          if (t[i] == ']') { i++; return j; }
          fail("arr");
        }
      }
      if (c == '"') {
        Json j; j.k = STR; i++;
        while (i < t.size() && t[i] != '"') {
          if (t[i] == '\\') {
            i++;
            switch (t[i]) {
              case 'n': j.s += '\n'; break; case 't': j.s += '\t'; break; case 'r': j.s += '\r'; break;
              case 'b': j.s += '\b'; break; case 'f': j.s += '\f'; break;
              case 'u': { unsigned v = (unsigned)strtoul(t.substr(i + 1, 4).c_str(), nullptr, 16); j.s += (char)(v & 0xff); i += 4; break; }
              default: j.s += t[i];
            }
            i++;
          } else j.s += t[i++];
        }
        i++;
        return j;
      }
      if (!strncmp(&t[i], "true", 4)) { i += 4; return Json(true); }
      if (!strncmp(&t[i], "false", 5)) { i += 5; return Json(false); }
      if (!strncmp(&t[i], "null", 4)) { i += 4; return Json(); }
      size_t st = i; bool dbl = false;
      if (t[i] == '-') i++;
      while (i < t.size() && (isdigit((unsigned char)t[i]) || t[i] == '.' || t[i] == 'e' || t[i] == 'E' || t[i] == '+' || t[i] == '-')) { if (t[i] == '.' || t[i] == 'e' || t[i] == 'E') dbl = true; i++; }
      if (st == i) fail("value");
      std::string num = t.substr(st, i - st);
      if (dbl) return Json(strtod(num.c_str(), nullptr));
      return Json((long long)strtoll(num.c_str(), nullptr, 10));
    }
  };
  static Json parse(const std::string &text) { P p{text}; Json j = p.val(); return j; }
};

inline std::string read_file(const std::string &path) {
  FILE *f = fopen(path.c_str(), "rb");
  if (!f) throw std::runtime_error("cannot open " + path);
  std::string s; char buf[65536]; size_t n;
  while ((n = fread(buf, 1, sizeof buf, f)) > 0) s.append(buf, n);
  fclose(f);
  return s;
}
inline void write_file(const std::string &path, const std::string &data) {
  std::string tmp = path + ".tmp";
  FILE *f = fopen(tmp.c_str(), "wb");
  if (!f) throw std::runtime_error("cannot write " + tmp);
  fwrite(data.data(), 1, data.size(), f);
  fclose(f);
  rename(tmp.c_str(), path.c_str());
}

}  // namespace sim
