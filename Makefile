# Builds libtheo from THEO_REPO's *current working tree* with the verification hooks on
# (-DTHEO_VERIF) and sanitizers, plus the simulator, into build/<CFG>/.
# CFG=asan (default): ASan + selected UBSan;  CFG=tsan: ThreadSanitizer (C18 supplementary stage);
# CFG=plain: no sanitizer (valgrind / gdb inspection of a replay).
THEO_REPO ?= /repo
CFG ?= asan
B := build/$(CFG)
CXX := g++

COMMON := -std=c++20 -DTHEO_VERIF -D_GLIBCXX_ASSERTIONS -fno-omit-frame-pointer -pthread
ifeq ($(CFG),asan)
SAN := -O1 -g1 -fsanitize=address -fsanitize=signed-integer-overflow,shift,bounds,null,integer-divide-by-zero,unreachable,return,vla-bound -fno-sanitize-recover=all
else ifeq ($(CFG),tsan)
SAN := -O1 -g1 -fsanitize=thread -DSIM_TSAN
else
SAN := -O1 -g -DSIM_PLAIN
endif

LIB_SRCS := Compiler/src/ast.cpp Compiler/src/parse.cpp Compiler/src/gen.cpp Compiler/src/compiler.cpp \
            Compiler/src/scan.cpp Compiler/src/macro.cpp Compiler/src/ParserGenerator/grammar.cpp \
            Compiler/src/ParserGenerator/lrdea.cpp VM/src/instr.cpp VM/src/vm.cpp VM/src/program.cpp
LIB_OBJS := $(patsubst %.cpp,$(B)/lib/%.o,$(LIB_SRCS)) $(B)/lib/lex.yy.o

SIM_SRCS := $(wildcard sim/*.cpp)
SIM_OBJS := $(patsubst sim/%.cpp,$(B)/sim/%.o,$(SIM_SRCS))

# like the repository's CMake build: the shipped lex.yy.c is used unless lexer.l is newer, in which case
# flex regenerates it (here: into the build directory, never into the source tree)
LEXER_L := $(THEO_REPO)/Compiler/src/lexer.l
LEXER_C := $(THEO_REPO)/Compiler/src/lex.yy.c
REGEN := $(shell if [ $(LEXER_L) -nt $(LEXER_C) ] && command -v flex >/dev/null; then echo yes; fi)
ifeq ($(REGEN),yes)
LEX_SRC := $(B)/gen/Compiler/src/lex.yy.c
INC := -I$(B)/gen -I$(THEO_REPO) -I$(THEO_REPO)/Compiler/include
else
LEX_SRC := $(LEXER_C)
INC := -I$(THEO_REPO) -I$(THEO_REPO)/Compiler/include
endif

all: $(B)/theosim

$(B)/gen/Compiler/src/lex.yy.c: $(LEXER_L)
	@mkdir -p $(B)/gen/Compiler/src $(B)/gen/Compiler/include
	flex --outfile=$@ --header-file=$(B)/gen/Compiler/include/lex.yy.h --noline --nounistd $(LEXER_L)

$(B)/lib/lex.yy.o: $(LEX_SRC) $(B)/repo.stamp
	@mkdir -p $(dir $@)
	$(CXX) -x c++ $(COMMON) $(SAN) $(INC) -w -MMD -MP -c $< -o $@

$(B)/lib/%.o: $(THEO_REPO)/%.cpp $(B)/repo.stamp
	@mkdir -p $(dir $@)
	$(CXX) $(COMMON) $(SAN) $(INC) -w -MMD -MP -c $< -o $@

$(B)/sim/%.o: sim/%.cpp $(B)/repo.stamp
	@mkdir -p $(dir $@)
	$(CXX) $(COMMON) $(SAN) $(INC) -Isim -Wall -Wno-sign-compare -MMD -MP -c $< -o $@

$(B)/theosim: $(LIB_OBJS) $(SIM_OBJS)
	$(CXX) $(COMMON) $(SAN) -o $@ $^

# remembers which repository the objects were built from; a different THEO_REPO forces a rebuild
$(B)/repo.stamp: FORCE
	@mkdir -p $(B)
	@if [ "`cat $@ 2>/dev/null`" != "$(THEO_REPO) $(REGEN)" ]; then echo "$(THEO_REPO) $(REGEN)" > $@; fi

FORCE:

clean:
	rm -rf build

-include $(LIB_OBJS:.o=.d) $(SIM_OBJS:.o=.d)

.PHONY: all clean FORCE
