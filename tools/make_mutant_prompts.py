#!/usr/bin/env python3
# usage: tools/make_mutant_prompts.py NAME:PID:"extra constraint" ...   -> /tmp/prompt-NAME.txt (worktree /tmp/wt-NAME)
import json,sys,os
here=os.path.dirname(os.path.abspath(__file__))
props={}
for l in open(os.path.join(here,'..','properties.jsonl')):
    p=json.loads(l); props[p['id']]=p
T=open(os.path.join(here,'mutant_prompt.tmpl')).read()
for spec in sys.argv[1:]:
    name,pid,extra=spec.split(':',2)
    p=props[pid]
    open(f'/tmp/prompt-{name}.txt','w').write(T.format(wt='/tmp/wt-'+name,name=name,pid=pid,title=p['title'],statement=p['statement'],quant=p['quantifier']['text'],extra=extra))
    print('/tmp/prompt-'+name+'.txt')
