#!/bin/bash
# tools/try_mutant.sh <dir containing patch.diff> <property> [more properties...]
# Applies a seeded change to /repo, runs the quick checks, undoes the change.  Prints one line per check.
cd "$(dirname "$0")/.." || exit 2
dir=$(realpath "$1"); shift
R=${THEO_REPO:-/repo}
git -C $R diff --quiet || { echo "/repo has uncommitted changes, refusing"; exit 2; }
git -C $R apply "$dir/patch.diff" || { echo "patch does not apply"; exit 2; }
trap 'git -C $R checkout -- . ; rm -rf replays.mut' EXIT
for p in "$@"; do
  tier=quick; case $p in *:thorough) tier=thorough; p=${p%%:*};; esac
  s=$(date +%s)
  out=$(timeout 1500 ./check $p $tier --replays replays.mut --evidence build/mut.$p.json 2>&1); rc=$?
  e=$(date +%s)
  echo "$p $tier exit=$rc $((e-s))s $(echo "$out" | grep -E 'VIOLATION|KNOWN' | head -3 | tr '\n' ' ')"
  if [ $rc = 1 ]; then echo "$out" | grep -E '^  oracle' | head -3; fi
  if [ $rc = 2 ]; then echo "$out" | tail -5; fi
done
