#!/bin/bash
# Every replay file in findings/ must report its violation on the pinned tree (+ hook commits, before the fixes)
# and must pass on /repo as it is now.  Uses a scratch worktree and a scratch build directory, both removed again.
cd "$(dirname "$0")/.." || exit 2
PIN=${1:-a8d5eb9}    # pinned snapshot + the three hook commits
W=/tmp/wt-pinned-$$
git -C /repo worktree add -q $W $PIN || exit 2
make -s -j"$(nproc)" B=build/pinned THEO_REPO=$W >/dev/null 2>&1 || { echo "build of the pinned tree failed"; exit 2; }
./check build || exit 2
fail=0
for f in findings/*.json; do
  a=$(THEO_REPO=$W build/pinned/theosim replay $f --quiet 2>/dev/null | grep -c VIOLATION)
  b=$(build/asan/theosim replay $f --quiet 2>/dev/null | grep -c VIOLATION)
  echo "$f: pinned tree: $([ $a = 1 ] && echo violation reproduced || echo NOT REPRODUCED)   current tree: $([ $b = 0 ] && echo holds || echo STILL VIOLATED)"
  [ $a = 1 ] && [ $b = 0 ] || fail=1
done
git -C /repo worktree remove --force $W; rm -rf build/pinned
exit $fail
