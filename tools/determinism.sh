#!/bin/bash
# Determinism self-test: every run is executed several times - in the worker pool at 16 workers and at 3 workers,
# and in-process without a pool, in separate processes running at the same time - and the per-run event-log
# hashes are compared.  Any difference is an engine error.
# usage: tools/determinism.sh [runs-per-property] [seed]
cd "$(dirname "$0")/.." || exit 2
N=${1:-1500}; SEED=${2:-1}
./check build || exit 2
T=build/determinism; rm -rf $T; mkdir -p $T
fail=0
for p in C01 C02 C03 C05 C06 C07 C08 C11 C15 C16 C17 C18 C19 C20; do
  n=$N; [ $p = C18 ] && n=$((N/4)); [ $p = C11 ] && n=$((N/2))
  VERIF_BUDGET_S=600 build/asan/theosim check $p quick --seed $SEED --runs $n --workers 16 --evidence $T/ev.$p.a.json --replays $T/rep --dump-hashes $T/$p.a >/dev/null 2>$T/$p.a.err &
  VERIF_BUDGET_S=600 build/asan/theosim check $p quick --seed $SEED --runs $n --workers 3 --logs $T/logs3 --evidence $T/ev.$p.b.json --replays $T/rep --dump-hashes $T/$p.b >/dev/null 2>$T/$p.b.err &
  build/asan/theosim hashes $p $SEED 0 $((n/4)) quick 2>/dev/null | awk '{print $1, $2, $3}' > $T/$p.c &
  wait
  if ! cmp -s $T/$p.a $T/$p.b; then echo "NONDETERMINISM $p: pool(16) vs pool(3): $(diff $T/$p.a $T/$p.b | head -3)"; fail=1; fi
  head -n $(wc -l < $T/$p.c) $T/$p.a | diff -q - $T/$p.c >/dev/null || { echo "NONDETERMINISM $p: pool vs in-process: $(head -n $(wc -l < $T/$p.c) $T/$p.a | diff - $T/$p.c | head -3)"; fail=1; }
  echo "$p: $(wc -l < $T/$p.a) runs x2 pools, $(wc -l < $T/$p.c) in-process: $([ $fail = 0 ] && echo identical || echo DIFFERENT)"
done
exit $fail
