#!/bin/bash
# tools/confirm_mutant.sh <worktree> <id>  - confirms: patch applies to HEAD, builds, 12 tests pass, demo fails with / passes without
wt=$1; id=$2
cd $wt || exit 2
git checkout -q -- Compiler VM CLI 2>/dev/null
git apply --check patch.diff || { echo "$id: patch does not apply to HEAD"; exit 2; }
demo=$(ls demo_*.cpp | head -1)
build() { cmake -G Ninja -S $wt -B $wt/_build >/dev/null 2>&1; cmake --build $wt/_build 2>&1 | grep -E "warning|error" | head -3; }
mkdemo() { g++ -std=c++20 -DNDEBUG -I$wt -I$wt/Compiler/include $demo -L$wt/_build/Compiler -L$wt/_build/VM -lTheoC -lTheoVM -pthread -Wl,-rpath,$wt/_build/Compiler:$wt/_build/VM -o $wt/_build/demo_bin 2>&1 | head -3; }
build; mkdemo; (cd $wt; timeout 120 ./_build/demo_bin >/dev/null 2>&1); base=$?
git apply patch.diff; build
tests=$(ctest --test-dir $wt/_build -j8 2>&1 | grep -E "tests passed|tests failed")
mkdemo; (cd $wt; timeout 120 ./_build/demo_bin >/dev/null 2>&1); mut=$?
echo "$id: tests with change: [$tests]  demo without change: exit $base  demo with change: exit $mut"
