#!/bin/bash
# Re-runs every seeded change in seeded/ against the quick check of its property; all must be reported (exit 1).
cd "$(dirname "$0")/.." || exit 2
fail=0
for d in seeded/*/; do
  id=$(basename $d); [ -f $d/patch.diff ] && grep -q '"kind": "behaviour-preserving' $d/meta.json && continue
  prop=$(python3 -c "import json;m=json.load(open('$d/meta.json'));print(m.get('check_with',m['property']))")
  if grep -q '"expected": "missed"' $d/meta.json; then echo "$id: recorded as not caught, skipped"; continue; fi
  tier=$(python3 -c "import json;print(json.load(open('$d/meta.json')).get('tier','quick'))"); arg=$prop; [ $tier = thorough ] && arg=$prop:thorough; line=$(tools/try_mutant.sh $d $arg | head -1)
  echo "$id: $line"
  case "$line" in *exit=1*) ;; *) fail=1; echo "   NOT CAUGHT";; esac
done
exit $fail
