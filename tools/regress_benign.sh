#!/bin/bash
# Behaviour-preserving changes in seeded/benign-*: no check may raise an alarm on any of them.
cd "$(dirname "$0")/.." || exit 2
fail=0
for d in seeded/benign-*/; do echo "== $d"; tools/try_benign.sh $d "$@" | grep -v '^ok' && fail=1; done
exit $fail
