#!/bin/bash
# tools/eval_batch.sh NAME:PROP ...   - confirm (tests pass, demo discriminates) and run the quick check for each scratch worktree /tmp/wt-NAME
cd "$(dirname "$0")/.." || exit 2
for spec in "$@"; do
  name=${spec%%:*}; prop=${spec##*:}
  [ -f /tmp/wt-$name/patch.diff ] || { echo "$name: no patch.diff yet"; continue; }
  tools/confirm_mutant.sh /tmp/wt-$name $name | sed 's/100% tests passed, 0 tests failed out of 12/12 pass/' | cut -c1-140
  tools/try_mutant.sh /tmp/wt-$name $prop | cut -c1-260
done
