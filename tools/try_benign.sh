#!/bin/bash
# tools/try_benign.sh <dir with patch.diff> [properties...]  - a behaviour-preserving change must not raise any alarm
cd "$(dirname "$0")/.." || exit 2
dir=$(realpath "$1"); shift
props="$@"; [ -z "$props" ] && props="C01 C02 C03 C05 C06 C07 C08 C11 C15 C16 C17 C18 C19 C20"
R=${THEO_REPO:-/repo}
git -C $R diff --quiet || { echo "$R has uncommitted changes, refusing"; exit 2; }
git -C $R apply "$dir/patch.diff" || { echo "patch does not apply"; exit 2; }
trap 'git -C $R checkout -- . ; rm -rf replays.ben' EXIT
bad=0
for p in $props; do
  out=$(timeout 1500 ./check $p quick --replays replays.ben --evidence build/ben.$p.json 2>&1); rc=$?
  if [ $rc -ne 0 ]; then bad=1; echo "ALARM $p exit=$rc"; echo "$out" | grep -E "VIOLATION|oracle|error|build" | head -6; mkdir -p build/ben-replays; cp replays.ben/*.json build/ben-replays/ 2>/dev/null; else echo "ok $p"; fi
done
exit $bad
